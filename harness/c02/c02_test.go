// C02 Needle on-disk encoding round-trips and is self-checking.
//
// Engine A: needles are appended one after another into a backend.DiskFile
// behind a super block (exactly what Volume.doWriteRequest does), read back with
// Needle.ReadData at the recorded offset, and the file is walked with
// storage.ScanVolumeFileFrom. Expected sizes / contents come from an independent
// reading of the record layout (refSize / norm below), not from the code under test.
package c02

import (
	"bytes"
	"flag"
	"fmt"
	"os"
	"path/filepath"
	"strings"
	"testing"

	"github.com/chrislusf/seaweedfs/weed/storage"
	"github.com/chrislusf/seaweedfs/weed/storage/backend"
	"github.com/chrislusf/seaweedfs/weed/storage/needle"
	"github.com/chrislusf/seaweedfs/weed/storage/super_block"
	"github.com/chrislusf/seaweedfs/weed/storage/types"
	"pgregory.net/rapid"

	"verifharness/vlib"
)

const (
	findEmptyMeta = "C02-empty-data-drops-metadata"
	findShortBody = "C02-short-body-panics"
)

func TestMain(m *testing.M) {
	_ = flag.Set("logtostderr", "true") // glog: no log files in /tmp
	vlib.Rule("C02: needle records for versions 2 and 3 with every subset of the flag bits, name/mime lengths {0,1,7,8,9,254,255}, data lengths {0..17,4095..4097,random<=8KiB}, pairs {0,1,2,100,65535} bytes, TTL none/all units, 5-byte last-modified range, appended in batches of 1..12 into a DiskFile behind a super block; read back with ReadData (compared immediately, and again after all records of the batch were decoded forward, backward and in a generated order while every decoded needle is retained), walked with ScanVolumeFileFrom; every bit of every data byte flipped for sampled records; mutated record bytes fed to ReadData. One evaluation = one record (round trip), one flipped record, or one hostile byte string. Non-trivial = record with >=2 optional fields present or a boundary length (data 0/1/7/8/9/4095..4097, name/mime 254/255, pairs 65535); a flipped/hostile input is non-trivial when it reaches the body parser. Distinct = distinct canonical record description.")
	vlib.Assume("C02: the reference layout (header 16B = cookie,id,size; body = dataSize,data,flags,[nameSize,name],[mimeSize,mime],[lastModified 5B],[ttl 2B],[pairsSize,pairs]; crc 4B; v3 timestamp 8B; padding to 8) is the harness' reading of needle_read_write.go's format comment and is trusted; callers' preconditions are respected (flag set <=> field supplied, HasTtl => Ttl != nil, PairsSize == len(Pairs), Checksum == CRC(data), name/mime < 256 B, pairs < 64 KiB).")
	vlib.Main(m)
}

type failer interface {
	Fatalf(format string, args ...interface{})
}

// ------------------------------------------------------------------ reference

const (
	fCompressed = 0x01
	fName       = 0x02
	fMime       = 0x04
	fLM         = 0x08
	fTTL        = 0x10
	fPairs      = 0x20
	fUnused     = 0x40
	fManifest   = 0x80
	headerSize  = 16
)

type blob struct {
	id     uint64
	cookie uint32
	flags  byte
	data   []byte
	name   []byte
	mime   []byte
	pairs  []byte
	lm     uint64
	ttl    [2]byte // count, unit
	ns     uint64  // append timestamp (version 3)
	// generator bookkeeping for the description
	dseed uint64
}

func (b *blob) has(f byte) bool { return b.flags&f != 0 }

// fill produces len bytes from seed (splitmix64); all content is a pure
// function of rapid-drawn values.
func fill(seed uint64, n int) []byte {
	out := make([]byte, n)
	x := seed
	for i := 0; i < n; i += 8 {
		x += 0x9E3779B97F4A7C15
		z := x
		z = (z ^ (z >> 30)) * 0xBF58476D1CE4E5B9
		z = (z ^ (z >> 27)) * 0x94D049BB133111EB
		z ^= z >> 31
		for j := 0; j < 8 && i+j < n; j++ {
			out[i+j] = byte(z >> (8 * uint(j)))
		}
	}
	return out
}

func printable(seed uint64, n int) []byte {
	b := fill(seed, n)
	for i := range b {
		b[i] = 'a' + b[i]%26
	}
	return b
}

func (b *blob) needle() *needle.Needle {
	n := &needle.Needle{Cookie: types.Cookie(b.cookie), Id: types.NeedleId(b.id), Flags: b.flags, AppendAtNs: b.ns}
	n.Data = append([]byte{}, b.data...)
	if b.has(fName) {
		n.Name = append([]byte{}, b.name...)
	}
	if b.has(fMime) {
		n.Mime = append([]byte{}, b.mime...)
	}
	if b.has(fPairs) {
		n.Pairs = append([]byte{}, b.pairs...)
		n.PairsSize = uint16(len(b.pairs))
	}
	if b.has(fLM) {
		n.LastModified = b.lm
	}
	if b.has(fTTL) {
		n.Ttl = &needle.TTL{Count: b.ttl[0], Unit: b.ttl[1]}
	} else {
		n.Ttl = needle.EMPTY_TTL // what CreateNeedleFromRequest leaves for "no ttl"
	}
	n.Checksum = needle.NewCRC(n.Data)
	return n
}

// refSize is the body size the format prescribes for b.
func (b *blob) refSize() int {
	if len(b.data) == 0 {
		return 0
	}
	s := 4 + len(b.data) + 1
	if b.has(fName) {
		s += 1 + len(b.name)
	}
	if b.has(fMime) {
		s += 1 + len(b.mime)
	}
	if b.has(fLM) {
		s += 5
	}
	if b.has(fTTL) {
		s += 2
	}
	if b.has(fPairs) {
		s += 2 + len(b.pairs)
	}
	return s
}

func refUnpadded(size int, v needle.Version) int64 {
	n := int64(headerSize + size + 4)
	if v == needle.Version3 {
		n += 8
	}
	return n
}

// norm is what must come back when b is decoded.
func (b *blob) norm(v needle.Version) blob {
	w := blob{id: b.id, cookie: b.cookie, flags: b.flags, data: b.data}
	if b.has(fName) {
		w.name = b.name
	}
	if b.has(fMime) {
		w.mime = b.mime
	}
	if b.has(fPairs) {
		w.pairs = b.pairs
	}
	if b.has(fLM) {
		w.lm = b.lm & (1<<40 - 1)
	}
	if b.has(fTTL) {
		w.ttl = b.ttl
	}
	if v == needle.Version3 {
		w.ns = b.ns
	}
	return w
}

func decoded(n *needle.Needle) blob {
	w := blob{id: uint64(n.Id), cookie: uint32(n.Cookie), flags: n.Flags, data: n.Data, name: n.Name, mime: n.Mime, pairs: n.Pairs, lm: n.LastModified, ns: n.AppendAtNs}
	if n.Ttl != nil {
		w.ttl = [2]byte{n.Ttl.Count, n.Ttl.Unit}
	}
	return w
}

func diff(want, got blob) string {
	var d []string
	if want.id != got.id {
		d = append(d, fmt.Sprintf("id %x != %x", got.id, want.id))
	}
	if want.cookie != got.cookie {
		d = append(d, fmt.Sprintf("cookie %x != %x", got.cookie, want.cookie))
	}
	if want.flags != got.flags {
		d = append(d, fmt.Sprintf("flags %#02x != %#02x", got.flags, want.flags))
	}
	if !bytes.Equal(want.data, got.data) {
		d = append(d, fmt.Sprintf("data (%d bytes) != written (%d bytes)", len(got.data), len(want.data)))
	}
	if !bytes.Equal(want.name, got.name) {
		d = append(d, fmt.Sprintf("name %q != %q", trunc(got.name), trunc(want.name)))
	}
	if !bytes.Equal(want.mime, got.mime) {
		d = append(d, fmt.Sprintf("mime %q != %q", trunc(got.mime), trunc(want.mime)))
	}
	if !bytes.Equal(want.pairs, got.pairs) {
		d = append(d, fmt.Sprintf("pairs %q != %q", trunc(got.pairs), trunc(want.pairs)))
	}
	if want.lm != got.lm {
		d = append(d, fmt.Sprintf("lastModified %d != %d", got.lm, want.lm))
	}
	if want.ttl != got.ttl {
		d = append(d, fmt.Sprintf("ttl %v != %v", got.ttl, want.ttl))
	}
	if want.ns != got.ns {
		d = append(d, fmt.Sprintf("appendAtNs %d != %d", got.ns, want.ns))
	}
	return strings.Join(d, "; ")
}

func trunc(b []byte) string {
	if len(b) > 24 {
		return fmt.Sprintf("%s…(%d)", b[:24], len(b))
	}
	return string(b)
}

func (b *blob) String() string {
	s := fmt.Sprintf("id=%x cookie=%08x flags=%#02x data=%dB/%x", b.id, b.cookie, b.flags, len(b.data), b.dseed)
	if b.has(fName) {
		s += fmt.Sprintf(" name=%dB", len(b.name))
	}
	if b.has(fMime) {
		s += fmt.Sprintf(" mime=%dB", len(b.mime))
	}
	if b.has(fPairs) {
		s += fmt.Sprintf(" pairs=%dB", len(b.pairs))
	}
	if b.has(fLM) {
		s += fmt.Sprintf(" lm=%d", b.lm)
	}
	if b.has(fTTL) {
		s += fmt.Sprintf(" ttl=%d/%d", b.ttl[0], b.ttl[1])
	}
	s += fmt.Sprintf(" ns=%d", b.ns)
	return s
}

func boundaryLen(n int) bool {
	switch n {
	case 0, 1, 7, 8, 9, 4095, 4096, 4097:
		return true
	}
	return false
}

func (b *blob) nontrivial() bool {
	opt := 0
	for _, f := range []byte{fName, fMime, fLM, fTTL, fPairs} {
		if b.has(f) {
			opt++
		}
	}
	if opt >= 2 || boundaryLen(len(b.data)) {
		return true
	}
	if b.has(fName) && len(b.name) >= 254 || b.has(fMime) && len(b.mime) >= 254 || b.has(fPairs) && len(b.pairs) == 65535 {
		return true
	}
	return false
}

func (b *blob) classes(v needle.Version) []string {
	c := []string{fmt.Sprintf("roundtrip-v%d", v)}
	switch {
	case len(b.data) == 0:
		c = append(c, "data-empty")
	case len(b.data) <= 17:
		c = append(c, "data-tiny")
	case len(b.data) >= 4095 && len(b.data) <= 4097:
		c = append(c, "data-4k-boundary")
	default:
		c = append(c, "data-other")
	}
	if b.has(fName) && len(b.name) >= 254 {
		c = append(c, "name-254-255")
	}
	if b.has(fMime) && len(b.mime) >= 254 {
		c = append(c, "mime-254-255")
	}
	if b.has(fPairs) && len(b.pairs) == 65535 {
		c = append(c, "pairs-65535")
	}
	if b.has(fTTL) {
		c = append(c, "has-ttl")
	}
	if b.flags == 0 {
		c = append(c, "flags-none")
	}
	if b.flags|fUnused == 0xff {
		c = append(c, "flags-all")
	}
	return c
}

// ------------------------------------------------------------------ volume file

type volFile struct {
	dir string
	df  *backend.DiskFile
	ver needle.Version
}

func newVolFile(t failer, ver needle.Version) *volFile {
	dir := vlib.TempDir()
	f, err := os.OpenFile(filepath.Join(dir, "1.dat"), os.O_RDWR|os.O_CREATE, 0644)
	if err != nil {
		t.Fatalf("create: %v", err)
	}
	df := backend.NewDiskFile(f)
	rp, _ := super_block.NewReplicaPlacementFromString("000")
	sb := super_block.SuperBlock{Version: ver, ReplicaPlacement: rp, Ttl: needle.EMPTY_TTL}
	if _, err := df.WriteAt(sb.Bytes(), 0); err != nil {
		t.Fatalf("super block: %v", err)
	}
	return &volFile{dir: dir, df: df, ver: ver}
}

func (vf *volFile) close() {
	vf.df.Close()
	os.RemoveAll(vf.dir)
}

type written struct {
	b      *blob
	offset int64
	size   types.Size
	actual int64
}

type visit struct {
	id     uint64
	offset int64
	size   types.Size
	body   blob
	hdrLen int
	bodLen int
}

type scanner struct {
	readBody bool
	visits   []visit
}

func (s *scanner) VisitSuperBlock(super_block.SuperBlock) error { return nil }
func (s *scanner) ReadNeedleBody() bool                         { return s.readBody }
func (s *scanner) VisitNeedle(n *needle.Needle, offset int64, h, b []byte) error {
	s.visits = append(s.visits, visit{id: uint64(n.Id), offset: offset, size: n.Size, body: decoded(n), hdrLen: len(h), bodLen: len(b)})
	return nil
}

// appendAndCheck appends the batch and checks clauses (1) and (2) per record,
// then clause (3) for the whole file. Returns the written records.
func appendAndCheck(t failer, vf *volFile, batch []*blob) []written {
	ver := vf.ver
	var ws []written
	for i, b := range batch {
		n := b.needle()
		before, _, _ := vf.df.GetStat()
		off, _, actual, err := n.Append(vf.df, ver)
		if err != nil {
			t.Fatalf("record %d {%s}: Append: %v", i, b, err)
		}
		after, _, _ := vf.df.GetStat()
		// (1) alignment and size accounting
		if int64(off) != before || off%8 != 0 {
			t.Fatalf("record %d {%s}: appended at offset %d, file end was %d (must be equal and a multiple of 8)", i, b, off, before)
		}
		if int(n.Size) != b.refSize() {
			t.Fatalf("record %d {%s}: body size %d, format prescribes %d", i, b, n.Size, b.refSize())
		}
		unp := refUnpadded(b.refSize(), ver)
		if actual%8 != 0 || actual < unp || actual-unp > 8 {
			t.Fatalf("record %d {%s}: on-disk size %d is not the 8-byte-padded length of %d content bytes", i, b, actual, unp)
		}
		if actual != needle.GetActualSize(n.Size, ver) || actual != n.DiskSize(ver) || after-before != actual {
			t.Fatalf("record %d {%s}: Append reports %d bytes, GetActualSize %d, DiskSize %d, file grew by %d", i, b, actual, needle.GetActualSize(n.Size, ver), n.DiskSize(ver), after-before)
		}
		ws = append(ws, written{b: b, offset: int64(off), size: n.Size, actual: actual})
	}
	// (2) decode every record at its recorded offset (after all appends, so that a
	// record overwritten by a later one is noticed)
	for i, w := range ws {
		m := new(needle.Needle)
		if err := m.ReadData(vf.df, w.offset, w.size, ver); err != nil {
			t.Fatalf("record %d {%s} at %d size %d: ReadData: %v", i, w.b, w.offset, w.size, err)
		}
		want, got := w.b.norm(ver), decoded(m)
		if len(w.b.data) == 0 && w.b.flags != 0 && vlib.Known(findEmptyMeta) {
			t.Fatalf("internal: generator must not produce excluded class")
		}
		if d := diff(want, got); d != "" {
			t.Fatalf("record %d {%s} (v%d) decodes differently: %s", i, w.b, ver, d)
		}
		if m.Size != w.size || int(m.DataSize) != len(w.b.data) && len(w.b.data) > 0 {
			t.Fatalf("record %d {%s}: decoded Size %d DataSize %d", i, w.b, m.Size, m.DataSize)
		}
		if len(w.b.data) > 0 && m.Checksum != needle.NewCRC(w.b.data) {
			t.Fatalf("record %d {%s}: decoded checksum %x != crc(data) %x", i, w.b, m.Checksum, needle.NewCRC(w.b.data))
		}
	}
	// (2b) a decoded needle stays what it is while other records are decoded:
	// callers keep needles across reads (the volume server writes the response from
	// the needle it read, isFileUnchanged / verifyNeedleIntegrity / scanners hold one
	// needle while reading the next). Decode ALL records first - forward, then
	// backward with every other record twice, so that both a larger and a smaller
	// record follow each record - and only then compare each retained needle.
	order := make([]int, 0, 3*len(ws))
	for i := range ws {
		order = append(order, i)
	}
	for i := len(ws) - 1; i >= 0; i-- {
		order = append(order, i)
		if i%2 == 0 {
			order = append(order, i)
		}
	}
	retainedDecodeCheck(t, vf, ws, order)
	// (3) a scan visits exactly the written records in order
	for _, readBody := range []bool{true, false} {
		sc := &scanner{readBody: readBody}
		if err := storage.ScanVolumeFileFrom(ver, vf.df, super_block.SuperBlockSize, sc); err != nil {
			t.Fatalf("scan(readBody=%v) of %d records: %v", readBody, len(ws), err)
		}
		if len(sc.visits) != len(ws) {
			t.Fatalf("scan(readBody=%v) visited %d records, %d were written: %v", readBody, len(sc.visits), len(ws), describe(batch))
		}
		for i, w := range ws {
			v := sc.visits[i]
			if v.id != w.b.id || v.offset != w.offset || v.size != w.size {
				t.Fatalf("scan visit %d = (id %x, offset %d, size %d), written (id %x, offset %d, size %d)", i, v.id, v.offset, v.size, w.b.id, w.offset, w.size)
			}
			if v.hdrLen != headerSize {
				t.Fatalf("scan visit %d: header of %d bytes", i, v.hdrLen)
			}
			if readBody {
				if int64(v.bodLen) != w.actual-headerSize {
					t.Fatalf("scan visit %d: body of %d bytes, record has %d", i, v.bodLen, w.actual-headerSize)
				}
				if d := diff(w.b.norm(ver), v.body); d != "" {
					t.Fatalf("scan visit %d {%s} (v%d) body decodes differently: %s", i, w.b, ver, d)
				}
			}
		}
	}
	return ws
}

// retainedDecodeCheck decodes ws[order[0]], ws[order[1]], ... with ReadData,
// keeps every decoded needle, and compares all of them with their originals only
// after the last decode.
func retainedDecodeCheck(t failer, vf *volFile, ws []written, order []int) {
	ver := vf.ver
	held := make([]*needle.Needle, len(order))
	for j, i := range order {
		w := ws[i]
		m := new(needle.Needle)
		if err := m.ReadData(vf.df, w.offset, w.size, ver); err != nil {
			t.Fatalf("record %d {%s} at %d size %d: ReadData (decode %d of %v): %v", i, w.b, w.offset, w.size, j, order, err)
		}
		held[j] = m
	}
	for j, i := range order {
		w, m := ws[i], held[j]
		if d := diff(w.b.norm(ver), decoded(m)); d != "" {
			t.Fatalf("record %d {%s} (v%d), decode %d in read order %v: after the later records were decoded the needle no longer equals what was written: %s", i, w.b, ver, j, order, d)
		}
		if m.Size != w.size || len(w.b.data) > 0 && (int(m.DataSize) != len(w.b.data) || m.Checksum != needle.NewCRC(w.b.data) || m.Checksum != needle.NewCRC(m.Data)) {
			t.Fatalf("record %d {%s} (v%d), decode %d in read order %v: retained needle has Size %d DataSize %d checksum %x (crc of its data %x, of the written data %x)", i, w.b, ver, j, order, m.Size, m.DataSize, m.Checksum, needle.NewCRC(m.Data), needle.NewCRC(w.b.data))
		}
	}
}

func describe(batch []*blob) string {
	var s []string
	for _, b := range batch {
		s = append(s, "{"+b.String()+"}")
	}
	return strings.Join(s, " ")
}

// ------------------------------------------------------------------ generators

var lens255 = []int{0, 1, 7, 8, 9, 254, 255}

func genBlob(t *rapid.T) *blob {
	b := &blob{}
	b.id = rapid.OneOf(rapid.Uint64Min(1), rapid.SampledFrom([]uint64{1, 255, 256, 1<<32 - 1, 1 << 32, 1 << 40, 1<<64 - 1})).Draw(t, "id")
	b.cookie = rapid.Uint32().Draw(t, "cookie")
	b.flags = rapid.OneOf(rapid.Byte(), rapid.SampledFrom([]byte{0, 0xff, 0xbf, fName | fMime, fLM | fTTL, fPairs})).Draw(t, "flags")
	dl := rapid.OneOf(rapid.IntRange(0, 17), rapid.IntRange(4095, 4097), rapid.IntRange(18, 8192), rapid.IntRange(1, 17)).Draw(t, "dataLen")
	if dl == 0 && b.flags != 0 && vlib.Known(findEmptyMeta) {
		vlib.Excluded(findEmptyMeta)
		b.flags = 0
	}
	b.dseed = rapid.Uint64().Draw(t, "dataSeed")
	b.data = fill(b.dseed, dl)
	l255 := rapid.OneOf(rapid.SampledFrom(lens255), rapid.IntRange(0, 255))
	if b.has(fName) {
		b.name = printable(b.dseed+1, l255.Draw(t, "nameLen"))
	}
	if b.has(fMime) {
		b.mime = printable(b.dseed+2, l255.Draw(t, "mimeLen"))
	}
	if b.has(fPairs) {
		b.pairs = printable(b.dseed+3, rapid.SampledFrom([]int{0, 1, 2, 100, 100, 1000, 65535}).Draw(t, "pairsLen"))
	}
	if b.has(fLM) {
		b.lm = rapid.OneOf(rapid.Uint64Range(0, 1<<40-1), rapid.SampledFrom([]uint64{0, 1, 1<<32 - 1, 1 << 32, 1<<40 - 1, 1600000000})).Draw(t, "lastModified")
	}
	if b.has(fTTL) {
		b.ttl = [2]byte{rapid.Byte().Draw(t, "ttlCount"), byte(rapid.IntRange(0, 6).Draw(t, "ttlUnit"))}
		if b.ttl[1] == 0 {
			// unit 0 only occurs as the empty TTL (ReadTTL never returns count>0 without unit)
			b.ttl = [2]byte{0, 0}
		}
	}
	b.ns = rapid.OneOf(rapid.Uint64(), rapid.SampledFrom([]uint64{0, 1, 1<<63 - 1, 1<<64 - 1})).Draw(t, "appendAtNs")
	return b
}

func genVersion(t *rapid.T) needle.Version {
	return needle.Version(rapid.IntRange(2, 3).Draw(t, "version"))
}

// ------------------------------------------------------------------ properties

func TestPropRoundTrip(t *testing.T) {
	vlib.Check(t, 1600, 30000, func(t *rapid.T) {
		ver := genVersion(t)
		k := rapid.IntRange(1, 12).Draw(t, "records")
		batch := make([]*blob, k)
		for i := range batch {
			batch[i] = genBlob(t)
		}
		vf := newVolFile(t, ver)
		defer vf.close()
		ws := appendAndCheck(t, vf, batch)
		// a generated read order (records may repeat), compared after the last decode
		order := rapid.SliceOfN(rapid.IntRange(0, k-1), 2, 16).Draw(t, "readOrder")
		retainedDecodeCheck(t, vf, ws, order)
		vlib.Class("retained-decode-order")
		vlib.Class("scan-batch")
		for _, b := range batch {
			vlib.Case(fmt.Sprintf("v%d %s", ver, b), b.nontrivial(), b.classes(ver)...)
		}
	})
}

// TestPropRoundTripLarge: the same clauses for payloads of 64 KiB .. 2 MiB.
func TestPropRoundTripLarge(t *testing.T) {
	vlib.Check(t, 40, 600, func(t *rapid.T) {
		ver := genVersion(t)
		b := genBlob(t)
		dl := rapid.OneOf(rapid.SampledFrom([]int{65535, 65536, 65537, 1 << 20, 1<<20 + 1}), rapid.IntRange(8193, 2<<20)).Draw(t, "largeDataLen")
		b.data = fill(b.dseed, dl)
		small := genBlob(t)
		vf := newVolFile(t, ver)
		defer vf.close()
		appendAndCheck(t, vf, []*blob{small, b, small})
		vlib.Case(fmt.Sprintf("v%d %s", ver, b), true, "roundtrip-large-data")
	})
}

// enumerate calls fn for every element of the boundary cross product selected
// by the tier: flags (all 128 subsets of the 7 defined bits) x data length x
// name length x mime length x pairs length x version.
func enumerate(fn func(idx int, ver needle.Version, b *blob)) int {
	dataLens := []int{0, 1, 7, 8, 9}
	nameLens, mimeLens, pairLens := []int{0, 255}, []int{1, 254}, []int{1}
	if vlib.Thorough() {
		dataLens = []int{0, 1, 2, 3, 4, 5, 6, 7, 8, 9, 10, 11, 12, 13, 14, 15, 16, 17, 4095, 4096, 4097}
		nameLens, mimeLens, pairLens = lens255, lens255, []int{0, 1, 65535}
	}
	idx := 0
	for _, ver := range []needle.Version{needle.Version2, needle.Version3} {
		for f := 0; f < 256; f++ {
			if f&fUnused != 0 {
				continue
			}
			flags := byte(f)
			nl, ml, pl := []int{0}, []int{0}, []int{0}
			if flags&fName != 0 {
				nl = nameLens
			}
			if flags&fMime != 0 {
				ml = mimeLens
			}
			if flags&fPairs != 0 {
				pl = pairLens
			}
			for _, d := range dataLens {
				for _, a := range nl {
					for _, m := range ml {
						for _, p := range pl {
							if p == 65535 && (a != 0 && a != 255 || m != 0 && m != 255) && flags&(fName|fMime) != 0 {
								// keep the 64 KiB records to the extreme name/mime lengths
								continue
							}
							seed := uint64(idx)*2654435761 + 12345
							b := &blob{id: seed | 1, cookie: uint32(seed >> 7), flags: flags, dseed: seed}
							b.data = fill(seed, d)
							b.name, b.mime, b.pairs = printable(seed+1, a), printable(seed+2, m), printable(seed+3, p)
							b.lm = (seed * 31) & (1<<40 - 1)
							b.ttl = [2]byte{byte(seed%255) + 1, byte(seed%6) + 1}
							b.ns = seed * 1000003
							fn(idx, ver, b)
							idx++
						}
					}
				}
			}
		}
	}
	return idx
}

func TestPropRoundTripExhaustive(t *testing.T) {
	const perFile = 48
	var vf *volFile
	var batch []*blob
	var cur needle.Version
	flush := func() {
		if len(batch) > 0 {
			appendAndCheck(t, vf, batch)
			for _, b := range batch {
				vlib.Case(fmt.Sprintf("v%d %s", cur, b), b.nontrivial(), append([]string{"enumerated"}, b.classes(cur)...)...)
			}
		}
		if vf != nil {
			vf.close()
			vf = nil
		}
		batch = nil
	}
	total := enumerate(func(idx int, ver needle.Version, b *blob) {
		if !vlib.ShardOwns(idx / perFile) {
			return
		}
		if len(b.data) == 0 && b.flags != 0 && vlib.Known(findEmptyMeta) {
			vlib.Excluded(findEmptyMeta)
			return
		}
		if vf != nil && (ver != cur || len(batch) >= perFile) {
			flush()
		}
		if vf == nil {
			vf, cur = newVolFile(t, ver), ver
		}
		batch = append(batch, b)
	})
	flush()
	vlib.Note(fmt.Sprintf("C02 boundary cross product (%s tier): %d records over flags x data x name x mime x pairs x version", vlib.Tier(), total))
	vlib.Exhaustive("flags-x-boundary-lengths-"+vlib.Tier(), true)
}

// TestPropBitFlipDetected: clause (4). For a generated record every single bit
// of every data byte is flipped in the record bytes handed to ReadBytes, and a
// drawn sample of positions is flipped in the file itself and read with ReadData.
func TestPropBitFlipDetected(t *testing.T) {
	vlib.Check(t, 400, 6000, func(t *rapid.T) {
		ver := genVersion(t)
		pre := rapid.IntRange(0, 2).Draw(t, "recordsBefore")
		var batch []*blob
		for i := 0; i < pre; i++ {
			batch = append(batch, genBlob(t))
		}
		b := genBlob(t)
		dl := rapid.OneOf(rapid.IntRange(1, 17), rapid.IntRange(18, 600)).Draw(t, "flipDataLen")
		b.data = fill(b.dseed, dl)
		batch = append(batch, b)
		vf := newVolFile(t, ver)
		defer vf.close()
		ws := appendAndCheck(t, vf, batch)
		w := ws[len(ws)-1]
		raw, err := needle.ReadNeedleBlob(vf.df, w.offset, w.size, ver)
		if err != nil || int64(len(raw)) != w.actual {
			t.Fatalf("ReadNeedleBlob: %d bytes, %v", len(raw), err)
		}
		dataAt := headerSize + 4
		if !bytes.Equal(raw[dataAt:dataAt+dl], b.data) {
			t.Fatalf("record {%s}: data bytes are not at offset %d of the record", b, dataAt)
		}
		for pos := 0; pos < dl; pos++ {
			for bit := uint(0); bit < 8; bit++ {
				mut := append([]byte{}, raw...)
				mut[dataAt+pos] ^= 1 << bit
				m := new(needle.Needle)
				if err := m.ReadBytes(mut, w.offset, w.size, ver); err == nil {
					t.Fatalf("record {%s} v%d: data byte %d bit %d flipped, ReadBytes returned %d data bytes without error (equal to written: %v)", b, ver, pos, bit, len(m.Data), bytes.Equal(m.Data, b.data))
				}
			}
		}
		// the same through the file
		samples := rapid.IntRange(1, 6).Draw(t, "fileFlips")
		for s := 0; s < samples; s++ {
			pos := rapid.IntRange(0, dl-1).Draw(t, "pos")
			bit := uint(rapid.IntRange(0, 7).Draw(t, "bit"))
			at := w.offset + int64(dataAt+pos)
			orig := raw[dataAt+pos]
			if _, err := vf.df.WriteAt([]byte{orig ^ 1<<bit}, at); err != nil {
				t.Fatalf("WriteAt: %v", err)
			}
			m := new(needle.Needle)
			if err := m.ReadData(vf.df, w.offset, w.size, ver); err == nil {
				t.Fatalf("record {%s} v%d: data byte %d bit %d flipped on disk, ReadData returned %d bytes without error", b, ver, pos, bit, len(m.Data))
			}
			vf.df.WriteAt([]byte{orig}, at)
			m = new(needle.Needle)
			if err := m.ReadData(vf.df, w.offset, w.size, ver); err != nil || !bytes.Equal(m.Data, b.data) {
				t.Fatalf("record {%s}: restored byte does not read back: %v", b, err)
			}
		}
		vlib.Case(fmt.Sprintf("flip v%d %s", ver, b), true, "bitflip-all-data-bits", fmt.Sprintf("bitflip-v%d", ver))
	})
}

func TestPropBitFlipExhaustiveSmall(t *testing.T) {
	vlib.Shard0Only(t)
	// every data length 1..40, both versions, with and without trailing metadata
	for _, ver := range []needle.Version{needle.Version2, needle.Version3} {
		for dl := 1; dl <= 40; dl++ {
			for _, flags := range []byte{0, fName | fMime | fLM | fTTL | fPairs} {
				seed := uint64(dl)*977 + uint64(flags)
				b := &blob{id: seed + 1, cookie: uint32(seed), flags: flags, dseed: seed, data: fill(seed, dl), name: []byte("n.txt"), mime: []byte("text/plain"), pairs: []byte(`{"a":"b"}`), lm: 1600000000, ttl: [2]byte{3, needle.Day}, ns: 42}
				vf := newVolFile(t, ver)
				ws := appendAndCheck(t, vf, []*blob{b})
				raw, _ := needle.ReadNeedleBlob(vf.df, ws[0].offset, ws[0].size, ver)
				for i := 0; i < dl*8; i++ {
					mut := append([]byte{}, raw...)
					mut[headerSize+4+i/8] ^= 1 << uint(i%8)
					if err := new(needle.Needle).ReadBytes(mut, ws[0].offset, ws[0].size, ver); err == nil {
						t.Fatalf("record {%s} v%d: bit %d of the data flipped and not reported", b, ver, i)
					}
				}
				vf.close()
				vlib.Case(fmt.Sprintf("flipx v%d %s", ver, b), true, "bitflip-enumerated")
			}
		}
	}
	vlib.Exhaustive("bitflips-data-len-1..40", true)
}
