// C01, HTTP level (Engine C): the cookie check for reads and deletes lives in the
// volume server handlers, so this part drives a real `weed volume` child process.
package c01

import (
	"bytes"
	"fmt"
	"strings"
	"sync"
	"testing"

	"github.com/chrislusf/seaweedfs/weed/storage/needle"
	"pgregory.net/rapid"

	"verifharness/vlib"
)

var (
	clOnce sync.Once
	cl     *vlib.Cluster
	clErr  error
)

func httpCluster(t interface{ Fatalf(string, ...any) }) *vlib.Cluster {
	clOnce.Do(func() { cl, clErr = vlib.StartCluster(vlib.ClusterOpts{Volumes: 1}) })
	if clErr != nil {
		t.Fatalf("INCONCLUSIVE cluster start: %v", clErr)
	}
	return cl
}

type httpBlob struct {
	vid    uint32
	key    uint64
	cookie uint32
	server string
	data   []byte // nil = deleted / never written
	name   string
	live   bool
}

// url builds one of the documented spellings: /vid,fid  /vid,fid.ext  /vid/fid/filename
func (b *httpBlob) url(cookie uint32, suffix string) string {
	if strings.HasPrefix(suffix, "/") {
		return fmt.Sprintf("http://%s/%d/%x%08x%s", b.server, b.vid, b.key, cookie, suffix)
	}
	return fmt.Sprintf("http://%s/%d,%x%08x%s", b.server, b.vid, b.key, cookie, suffix)
}

func genWrongCookie(right uint32) *rapid.Generator[uint32] {
	return rapid.Custom(func(t *rapid.T) uint32 {
		c := rapid.OneOf(rapid.SampledFrom([]uint32{0, 1, right + 1, right - 1, right ^ 0x80000000, right ^ 1, right >> 8, ^right}), rapid.Uint32()).Draw(t, "wrongCookie")
		if c == right {
			c = right + 7
		}
		return c
	})
}

// TestPropHttpCookie: histories of uploads, overwrites, reads and deletes over
// HTTP where a generated share of the requests presents a wrong cookie.
func TestPropHttpCookie(t *testing.T) {
	vlib.Check(t, 250, 4000, func(t *rapid.T) {
		c := httpCluster(t)
		nBlobs := rapid.IntRange(1, 3).Draw(t, "nBlobs")
		var blobs []*httpBlob
		for i := 0; i < nBlobs; i++ {
			ar, err := c.Assign("")
			if err != nil {
				t.Fatalf("INCONCLUSIVE assign: %v", err)
			}
			f, err := needle.ParseFileIdFromString(ar.Fid)
			if err != nil {
				t.Fatalf("INCONCLUSIVE fid %q: %v", ar.Fid, err)
			}
			blobs = append(blobs, &httpBlob{vid: uint32(f.VolumeId), key: uint64(f.Key), cookie: uint32(f.Cookie), server: ar.Url})
		}
		var trace []string
		nt := false
		seed := rapid.Uint32().Draw(t, "contentSeed")
		nOps := rapid.IntRange(2, 12).Draw(t, "nOps")
		for i := 0; i < nOps; i++ {
			b := blobs[rapid.IntRange(0, nBlobs-1).Draw(t, "blob")]
			wrong := rapid.IntRange(0, 2).Draw(t, "wrong") == 0
			cookie := b.cookie
			if wrong {
				cookie = genWrongCookie(b.cookie).Draw(t, "cookie")
			}
			suffix := rapid.SampledFrom([]string{"", "", "", ".txt", "/name.bin"}).Draw(t, "urlSuffix")
			op := rapid.SampledFrom([]string{"write", "write", "read", "read", "delete", "head"}).Draw(t, "op")
			switch op {
			case "write":
				n := rapid.OneOf(rapid.IntRange(1, 64), rapid.IntRange(1, 5000)).Draw(t, "len")
				seed++
				data := make([]byte, n)
				x := seed*2654435761 | 1
				for j := range data {
					x ^= x << 13
					x ^= x >> 17
					x ^= x << 5
					data[j] = byte(x)
				}
				if b.live && !wrong && rapid.IntRange(0, 4).Draw(t, "sameData") == 0 {
					data = append([]byte{}, b.data...)
				}
				name := rapid.SampledFrom([]string{"", "a.bin", "b.dat"}).Draw(t, "name")
				code, body, err := vlib.UploadMultipart(b.url(cookie, ""), data, name, "application/octet-stream", false, nil)
				trace = append(trace, fmt.Sprintf("POST key=%x cookie=%08x(%s) len=%d -> %d", b.key, cookie, rw(wrong), n, code))
				if err != nil {
					t.Fatalf("%s: %v", strings.Join(trace, "; "), err)
				}
				if wrong && b.live {
					// a live blob exists under another cookie: the write must be refused
					if code/100 == 2 {
						t.Fatalf("upload with cookie %08x over a live blob stored with cookie %08x was accepted (%d %s); history: %s", cookie, b.cookie, code, body, strings.Join(trace, "; "))
					}
					nt = true
				} else if wrong {
					// nothing live under this key: the statement does not decide whether a
					// write with another cookie creates the blob (see the storage-level check);
					// if it was accepted the blob now lives under the presented cookie
					if code/100 == 2 {
						b.cookie, b.data, b.name, b.live = cookie, data, name, true
						vlib.Class("http-other-cookie-write-on-dead-key-accepted")
					}
				} else {
					if code/100 != 2 {
						t.Fatalf("upload rejected: %d %s; history: %s", code, body, strings.Join(trace, "; "))
					}
					if b.live {
						nt = true
					}
					b.data, b.name, b.live = data, name, true
				}
			case "read", "head":
				method := "GET"
				if op == "head" {
					method = "HEAD"
				}
				code, _, body, err := vlib.Do(method, b.url(cookie, suffix), nil, nil)
				trace = append(trace, fmt.Sprintf("%s key=%x cookie=%08x(%s)%s -> %d (%d bytes)", method, b.key, cookie, rw(wrong), suffix, code, len(body)))
				if err != nil {
					t.Fatalf("%s: %v", strings.Join(trace, "; "), err)
				}
				if wrong {
					if code/100 == 2 || len(body) > 0 && b.live && bytes.Contains(body, b.data) {
						t.Fatalf("%s with cookie %08x (stored %08x) answered %d with %d bytes; history: %s", method, cookie, b.cookie, code, len(body), strings.Join(trace, "; "))
					}
					if b.live {
						nt = true
					}
				} else if b.live {
					if code != 200 {
						t.Fatalf("%s of a live blob -> %d; history: %s", method, code, strings.Join(trace, "; "))
					}
					if method == "GET" && !bytes.Equal(body, b.data) {
						t.Fatalf("GET returned %d bytes, the last successful write stored %d; history: %s", len(body), len(b.data), strings.Join(trace, "; "))
					}
				} else if code/100 == 2 {
					t.Fatalf("%s of a deleted / never written blob -> %d; history: %s", method, code, strings.Join(trace, "; "))
				}
			case "delete":
				code, _, body, err := vlib.Do("DELETE", b.url(cookie, ""), nil, nil)
				trace = append(trace, fmt.Sprintf("DELETE key=%x cookie=%08x(%s) -> %d", b.key, cookie, rw(wrong), code))
				if err != nil {
					t.Fatalf("%s: %v", strings.Join(trace, "; "), err)
				}
				if wrong {
					if b.live {
						nt = true
						if code/100 == 2 {
							t.Fatalf("DELETE with cookie %08x (stored %08x) answered %d %s; history: %s", cookie, b.cookie, code, body, strings.Join(trace, "; "))
						}
					}
				} else if b.live {
					if code/100 != 2 {
						t.Fatalf("DELETE of a live blob -> %d %s; history: %s", code, body, strings.Join(trace, "; "))
					}
					b.live, b.data = false, nil
					nt = true
				}
			}
			// control: every blob is exactly as the model says, read with its right cookie
			for _, x := range blobs {
				code, _, body, err := vlib.Do("GET", x.url(x.cookie, ""), nil, nil)
				if err != nil {
					t.Fatalf("control GET: %v", err)
				}
				if x.live {
					if code != 200 || !bytes.Equal(body, x.data) {
						t.Fatalf("after %s: blob key=%x reads %d with %d bytes, want 200 with the %d bytes of the last successful write; history: %s", trace[len(trace)-1], x.key, code, len(body), len(x.data), strings.Join(trace, "; "))
					}
				} else if code/100 == 2 {
					t.Fatalf("after %s: deleted / never written blob key=%x reads %d; history: %s", trace[len(trace)-1], x.key, code, strings.Join(trace, "; "))
				}
			}
		}
		if dead := c.AllAlive(); dead != "" {
			t.Fatalf("%s died; history: %s", dead, strings.Join(trace, "; "))
		}
		vlib.Case("http: "+strings.Join(trace, "; "), nt, "http-cookie-history")
	})
}

func rw(wrong bool) string {
	if wrong {
		return "wrong"
	}
	return "right"
}
