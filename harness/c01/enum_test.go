package c01

import (
	"errors"
	"fmt"
	"os"
	"strings"
	"testing"

	"github.com/chrislusf/seaweedfs/weed/storage"
	"github.com/chrislusf/seaweedfs/weed/storage/needle"
	"github.com/chrislusf/seaweedfs/weed/storage/types"

	"verifharness/vlib"
)

// ------------------------------------------------------------------ bounded enumeration
//
// Alphabet (15 symbols): W(key in {k0,k1}, cookie in {c0,c1}, payload in
// {E empty, A one byte, S same data as currently stored}), D(key), R (unmount +
// mount). All sequences of exactly `length` symbols are executed (every prefix is
// checked on the way, so all shorter sequences are covered too). Keys and
// cookies are interchangeable, so only sequences that use k0 before k1 and c0
// before c1 are run (canonical representatives).

var enumKeys = []uint64{3, 1<<40 + 9}
var enumCookies = [2]uint32{0x1a2b3c4d, 0x99999999}

type excluded struct{ key string }

func (e excluded) Error() string { return e.key }

func canonical(seq []int) bool {
	seenK1, seenK0 := false, false
	seenC0 := false
	for _, s := range seq {
		k := -1
		switch {
		case s < 12:
			k = s / 6
			c := (s / 3) % 2
			if c == 1 && !seenC0 {
				return false
			}
			seenC0 = true
		case s < 14:
			k = s - 12
		}
		if k == 1 && !seenK0 {
			return false
		}
		if k == 0 {
			seenK0 = true
		}
		if k == 1 {
			seenK1 = true
		}
	}
	_ = seenK1
	return true
}

func symName(s int) string {
	switch {
	case s < 12:
		return fmt.Sprintf("W(k%d,c%d,%c)", s/6, (s/3)%2, "EAS"[s%3])
	case s < 14:
		return fmt.Sprintf("D(k%d)", s-12)
	}
	return "R"
}

// runSeq executes seq on a fresh volume of the shared store. Returns an
// `excluded` error when the sequence hits the input class of a listed finding.
func runSeq(t failer, s *storage.Store, vid needle.VolumeId, seq []int) (m *machine, err error) {
	m = newMachineOn(t, s, vid, enumKeys)
	defer m.close()
	for _, sym := range seq {
		switch {
		case sym < 12:
			key, cookie := enumKeys[sym/6], enumCookies[(sym/3)%2]
			e := m.model[key]
			var b *blob
			switch sym % 3 {
			case 0:
				b = &blob{cookie: cookie, dtag: "0B"}
				if !vlib.Known(findEmptyMeta) {
					b.flags, b.name = fName, []byte("e.txt")
				}
			case 1:
				b = &blob{cookie: cookie, data: []byte("a"), dtag: "a", flags: fName | fMime | fLM, name: []byte("a.txt"), mime: []byte("text/plain"), lm: 1000000000}
			default:
				if e.state == live && len(e.blob.data) > 0 {
					b = &blob{cookie: cookie, data: e.blob.data, dtag: e.blob.dtag, flags: fName, name: []byte("s.txt")}
					if vlib.Known(findUnchangedMeta) && cookie == e.blob.cookie {
						b.flags, b.name, b.mime, b.lm = e.blob.flags, e.blob.name, e.blob.mime, 2000000000
					}
				} else {
					b = &blob{cookie: cookie, data: []byte("b"), dtag: "b", flags: fName, name: []byte("b.txt")}
				}
			}
			m.write(key, b)
		case sym < 14:
			key := enumKeys[sym-12]
			if e := m.model[key]; e.state == live && len(e.blob.data) == 0 && vlib.Known(findEmptyDelete) {
				return m, excluded{findEmptyDelete}
			}
			m.del(key, enumCookies[0])
		default:
			if m.liveEmpty() && vlib.Known(findEmptyReload) {
				return m, excluded{findEmptyReload}
			}
			m.reopen(true)
		}
	}
	return m, nil
}

// enumPlan: all sequences of exactly `length` symbols drawn from `alphabet`.
type enumPlan struct {
	name     string
	alphabet []int
	length   int
}

func enumPlans() []enumPlan {
	full := []int{0, 1, 2, 3, 4, 5, 6, 7, 8, 9, 10, 11, 12, 13, 14}
	oneKey := []int{0, 1, 2, 3, 4, 5, 12, 14} // W(k0,*,*), D(k0), R
	if vlib.Thorough() {
		return []enumPlan{{"2-keys-length-4", full, 4}, {"1-key-length-5", oneKey, 5}}
	}
	return []enumPlan{{"2-keys-length-3", full, 3}}
}

func TestPropSequencesExhaustive(t *testing.T) {
	dir := vlib.TempDir()
	defer os.RemoveAll(dir)
	s := newStore(dir, storage.NeedleMapInMemory)
	defer s.Close()
	ran := 0
	for _, plan := range enumPlans() {
		length, na := plan.length, len(plan.alphabet)
		total := 1
		for i := 0; i < length; i++ {
			total *= na
		}
		seq := make([]int, length)
		canon := 0
		for i := 0; i < total; i++ {
			x := i
			for j := length - 1; j >= 0; j-- {
				seq[j] = plan.alphabet[x%na]
				x /= na
			}
			if !canonical(seq) {
				continue
			}
			canon++
			if !vlib.ShardOwns(canon) {
				continue
			}
			m, err := runSeq(t, s, needle.VolumeId(1+ran%900), seq)
			ran++
			var ex excluded
			if errors.As(err, &ex) {
				vlib.Excluded(ex.key)
				continue
			}
			names := make([]string, length)
			for j, sy := range seq {
				names[j] = symName(sy)
			}
			cls := []string{"enumerated-" + plan.name}
			for c := range m.classes {
				cls = append(cls, c)
			}
			sortStrings(cls[1:])
			vlib.Case("enum: "+strings.Join(names, " "), m.rewrote, cls...)
		}
		vlib.Note(fmt.Sprintf("C01 bounded enumeration %s: all %d sequences of length %d over %d symbols, %d canonical representatives (keys/cookies up to renaming)", plan.name, total, length, na, canon))
		vlib.Exhaustive("op-sequences-"+plan.name, true)
	}
}

// ------------------------------------------------------------------ finding probes

type probeT struct{ msg string }

func (p *probeT) Fatalf(format string, args ...interface{}) {
	p.msg = fmt.Sprintf(format, args...)
	panic(p)
}

// probe runs f on a fresh one-volume machine; returns the failure message, if any.
func probe(f func(m *machine)) (msg string) {
	p := &probeT{}
	defer func() {
		if r := recover(); r != nil {
			if r == p {
				msg = p.msg
				if i := strings.Index(msg, "\nhistory"); i > 0 {
					msg = msg[:i]
				}
				return
			}
			panic(r)
		}
	}()
	m := newMachine(p, storage.NeedleMapInMemory, false, []uint64{5})
	defer m.close()
	f(m)
	return ""
}

func TestFindingEmptyBlob(t *testing.T) {
	msg := probe(func(m *machine) {
		m.write(5, &blob{cookie: 7, dtag: "0B", flags: fName | fMime | fLM, name: []byte("empty.txt"), mime: []byte("text/plain"), lm: 1600000000})
	})
	vlib.Finding(t, findEmptyMeta, msg != "", "write(id 5, empty data, name empty.txt, mime text/plain, last-modified) succeeds; "+msg)

	msg = probe(func(m *machine) {
		m.write(5, &blob{cookie: 7, dtag: "0B"})
		m.del(5, 7)
	})
	vlib.Finding(t, findEmptyDelete, msg != "", "write(id 5, empty data) then delete(id 5) returns success; "+msg)

	msg = probe(func(m *machine) {
		m.write(5, &blob{cookie: 7, dtag: "0B"})
		m.reopen(false)
	})
	vlib.Finding(t, findEmptyReload, msg != "", "write(id 5, empty data), close the store, open it again; "+msg)
}

func TestFindingUnchangedWrite(t *testing.T) {
	msg := probe(func(m *machine) {
		m.write(5, &blob{cookie: 7, data: []byte("x"), dtag: "x", flags: fName | fMime, name: []byte("a.txt"), mime: []byte("text/plain")})
		m.write(5, &blob{cookie: 7, data: []byte("x"), dtag: "x", flags: fName | fMime, name: []byte("b.html"), mime: []byte("text/html")})
	})
	vlib.Finding(t, findUnchangedMeta, msg != "", msg)
}

var _ = types.NeedleId(0)
