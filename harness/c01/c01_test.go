// C01 Volume blob store: read-your-writes, overwrite, delete, cookie.
//
// Engine B, storage level: a real storage.Store with one volume in a scratch
// directory is driven by generated histories of Store.WriteVolumeNeedle /
// DeleteVolumeNeedle / MarkVolumeReadonly / MarkVolumeWritable / reopen, and
// after every step every key of the key space is read back with
// Store.ReadVolumeNeedle and compared with a reference map.
//
// The cookie check on reads and deletes lives in the HTTP handlers
// (GetOrHeadHandler / DeleteHandler compare n.Cookie after ReadVolumeNeedle); at
// the storage API a delete carries no cookie check at all. That part of the
// statement is therefore not decided here (the lead adds it through a child
// process cluster). What is decided here for cookies: the stored cookie comes
// back from a read, and a write presenting another cookie than the stored one
// of a live blob is rejected and changes nothing.
package c01

import (
	"bytes"
	"flag"
	"fmt"
	"os"
	"strings"
	"testing"

	"github.com/chrislusf/seaweedfs/weed/storage"
	"github.com/chrislusf/seaweedfs/weed/storage/needle"
	"github.com/chrislusf/seaweedfs/weed/storage/types"
	"github.com/chrislusf/seaweedfs/weed/util"
	"pgregory.net/rapid"

	"verifharness/vlib"
)

const (
	findEmptyMeta     = "C01-empty-blob-metadata-dropped"
	findEmptyDelete   = "C01-empty-blob-undeletable"
	findEmptyReload   = "C01-empty-blob-lost-on-reload"
	findUnchangedMeta = "C01-unchanged-write-keeps-old-metadata"
)

func TestMain(m *testing.M) {
	_ = flag.Set("logtostderr", "true") // glog: no log files in /tmp
	vlib.Rule("C01: histories of <=40 operations (write / delete / mark read-only / mark writable / reopen by new Store or by unmount+mount) on a real storage.Store with one volume (needle map kind memory or leveldb, sync or async-fsync write path), over 6 needle ids (one >2^32, one >2^40, one >2^63), 2 cookies, payload lengths {0,1,7,8,9,255,256,random<=64KiB} drawn from a small per-history pool so that identical re-writes occur, names/mimes {absent,empty,short,255 B}, pairs {absent, small JSON, ~3 KiB JSON}, last-modified {absent,past,future,2^40-1}, gzip/manifest flags, optional per-needle TTL; in 2 of 5 histories a prologue first populates the index section with id 1 and 130..400 ascending ids (1000,1002,..) and the history then runs over ids that arrive late (far below the range and adjacent: 500,501,502,2; 150 and 20 entries behind the newest id), ids inside/at the end of/above the range and one id of another section, so that the in-memory map's overflow list and look-back insertion are used, and all prologue blobs are read back after every reopen and at the end; plus bounded-exhaustive enumeration of all canonical operation sequences over 2 keys x 2 cookies x {empty, 1-byte, same-as-stored} payloads, delete and reopen up to length 3 (quick) / 4 (thorough), and up to length 5 on a single key (thorough). After every operation all keys are read back and compared with a reference map. Non-trivial = the history contains an overwrite or a delete of a key that is read afterwards (reads follow every step). Distinct = distinct canonical operation sequence.")
	vlib.Assume("C01: storage-level part only. Read/delete with a wrong cookie is decided in the HTTP handlers and is not exercised here. A write reported as 'unchanged' (HTTP 204) is treated as not being a write: the oracle then requires that data, name, mime, pairs and flags of the request equal what is stored (the report is truthful) and lets last-modified stay. A write to a *deleted* id with another cookie may be accepted or rejected (the statement does not say; the index keeps the old offset for memory maps and forgets it for regenerated leveldb maps). Per-needle TTLs are >= 2 hours so that nothing expires during a case.")
	vlib.Main(m)
}

type failer interface {
	Fatalf(format string, args ...interface{})
}

// ------------------------------------------------------------------ content

const (
	fCompressed = 0x01
	fName       = 0x02
	fMime       = 0x04
	fLM         = 0x08
	fTTL        = 0x10
	fPairs      = 0x20
	fManifest   = 0x80
)

func fill(seed uint64, n int) []byte {
	out := make([]byte, n)
	x := seed
	for i := 0; i < n; i += 8 {
		x += 0x9E3779B97F4A7C15
		z := x
		z = (z ^ (z >> 30)) * 0xBF58476D1CE4E5B9
		z = (z ^ (z >> 27)) * 0x94D049BB133111EB
		z ^= z >> 31
		for j := 0; j < 8 && i+j < n; j++ {
			out[i+j] = byte(z >> (8 * uint(j)))
		}
	}
	return out
}

func printable(seed uint64, n int) []byte {
	b := fill(seed, n)
	for i := range b {
		b[i] = 'a' + b[i]%26
	}
	return b
}

// blob is what a write stores and what a read must return.
type blob struct {
	cookie uint32
	data   []byte
	dtag   string // short tag of the data for descriptions
	flags  byte
	name   []byte
	mime   []byte
	pairs  []byte
	lm     uint64
	ttl    [2]byte
}

func (b *blob) has(f byte) bool { return b.flags&f != 0 }

func (b *blob) needle(key uint64) *needle.Needle {
	n := &needle.Needle{Id: types.NeedleId(key), Cookie: types.Cookie(b.cookie), Flags: b.flags}
	n.Data = append([]byte{}, b.data...)
	if b.has(fName) {
		n.Name = append([]byte{}, b.name...)
	}
	if b.has(fMime) {
		n.Mime = append([]byte{}, b.mime...)
	}
	if b.has(fPairs) {
		n.Pairs = append([]byte{}, b.pairs...)
		n.PairsSize = uint16(len(b.pairs))
	}
	if b.has(fLM) {
		n.LastModified = b.lm
	}
	if b.has(fTTL) {
		n.Ttl = &needle.TTL{Count: b.ttl[0], Unit: b.ttl[1]}
	} else {
		n.Ttl = needle.EMPTY_TTL
	}
	n.Checksum = needle.NewCRC(n.Data)
	return n
}

func (b *blob) String() string {
	s := fmt.Sprintf("c=%08x d=%s", b.cookie, b.dtag)
	if b.has(fName) {
		s += fmt.Sprintf(" n=%q", short(b.name))
	}
	if b.has(fMime) {
		s += fmt.Sprintf(" m=%q", short(b.mime))
	}
	if b.has(fPairs) {
		s += fmt.Sprintf(" p=%dB", len(b.pairs))
	}
	if b.has(fLM) {
		s += fmt.Sprintf(" lm=%d", b.lm)
	}
	if b.has(fTTL) {
		s += fmt.Sprintf(" ttl=%d/%d", b.ttl[0], b.ttl[1])
	}
	if b.has(fCompressed) {
		s += " gz"
	}
	if b.has(fManifest) {
		s += " cm"
	}
	return s
}

func short(b []byte) string {
	if len(b) > 12 {
		return fmt.Sprintf("%s..%d", b[:8], len(b))
	}
	return string(b)
}

// metaDiff compares everything but cookie, data and last-modified.
func metaDiff(want, got *blob) string {
	var d []string
	if want.flags&^fLM != got.flags&^fLM {
		d = append(d, fmt.Sprintf("flags %#02x, written %#02x", got.flags, want.flags))
	}
	if want.has(fName) && !bytes.Equal(want.name, got.name) || !want.has(fName) && len(got.name) > 0 {
		d = append(d, fmt.Sprintf("name %q, written %q", short(got.name), short(want.name)))
	}
	if want.has(fMime) && !bytes.Equal(want.mime, got.mime) || !want.has(fMime) && len(got.mime) > 0 {
		d = append(d, fmt.Sprintf("mime %q, written %q", short(got.mime), short(want.mime)))
	}
	if want.has(fPairs) && !bytes.Equal(want.pairs, got.pairs) || !want.has(fPairs) && len(got.pairs) > 0 {
		d = append(d, fmt.Sprintf("pairs %q, written %q", short(got.pairs), short(want.pairs)))
	}
	wt, gt := [2]byte{}, got.ttl
	if want.has(fTTL) {
		wt = want.ttl
	}
	if wt != gt {
		d = append(d, fmt.Sprintf("ttl %v, written %v", gt, wt))
	}
	return strings.Join(d, "; ")
}

func lmOf(b *blob) (uint64, bool) {
	if b.has(fLM) {
		return b.lm & (1<<40 - 1), true
	}
	return 0, false
}

// ------------------------------------------------------------------ machine

const (
	absent = iota
	live
	deleted
)

type entry struct {
	state int
	blob  *blob // last stored blob (kept after delete for its cookie)
}

type machine struct {
	t        failer
	dir      string
	kind     storage.NeedleMapKind
	store    *storage.Store
	ownStore bool
	vid      needle.VolumeId
	async    bool
	readonly bool
	keys     []uint64
	model    map[uint64]*entry
	trace    []string
	classes  map[string]bool
	rewrote  bool            // an overwrite or delete of an existing key happened (and was read back)
	extra    []uint64        // prologue keys outside the key universe (checked after reopen and at the end)
	late     map[uint64]bool // universe keys that arrive out of order behind the prologue keys
}

func newStore(dir string, kind storage.NeedleMapKind) *storage.Store {
	return storage.NewStore(nil, 8080, "localhost", "localhost:8080", []string{dir}, []int{1000}, []util.MinFreeSpace{{}}, "", kind, []types.DiskType{types.HardDriveType})
}

func drain(s *storage.Store) {
	for {
		select {
		case <-s.NewVolumesChan:
		case <-s.DeletedVolumesChan:
		default:
			return
		}
	}
}

func newMachine(t failer, kind storage.NeedleMapKind, async bool, keys []uint64) *machine {
	m := &machine{t: t, kind: kind, async: async, keys: keys, vid: 1, ownStore: true, model: map[uint64]*entry{}, classes: map[string]bool{}}
	m.dir = vlib.TempDir()
	m.store = newStore(m.dir, kind)
	if async {
		m.store.SetStopping() // Store.WriteVolumeNeedle only takes the batched fsync path while stopping
	}
	m.addVolume()
	return m
}

// newMachineOn runs a case on a volume of a shared store (bounded enumeration).
func newMachineOn(t failer, s *storage.Store, vid needle.VolumeId, keys []uint64) *machine {
	m := &machine{t: t, kind: storage.NeedleMapInMemory, keys: keys, vid: vid, store: s, model: map[uint64]*entry{}, classes: map[string]bool{}}
	m.addVolume()
	return m
}

func (m *machine) addVolume() {
	if err := m.store.AddVolume(m.vid, "", m.kind, "000", "", 0, 0, types.HardDriveType); err != nil {
		m.t.Fatalf("AddVolume: %v", err)
	}
	drain(m.store)
	for _, k := range m.keys {
		m.model[k] = &entry{}
	}
}

func (m *machine) close() {
	if m.ownStore {
		m.store.Close()
		os.RemoveAll(m.dir)
	} else {
		m.store.DeleteVolume(m.vid)
		drain(m.store)
	}
}

func (m *machine) fail(format string, args ...interface{}) {
	m.t.Fatalf("%s\nhistory (kind=%d async=%v): %s", fmt.Sprintf(format, args...), m.kind, m.async, strings.Join(m.trace, " ; "))
}

func (m *machine) log(s string) { m.trace = append(m.trace, s) }

func kname(keys []uint64, k uint64) string {
	for i, x := range keys {
		if x == k {
			return fmt.Sprintf("k%d", i)
		}
	}
	return fmt.Sprintf("%x", k)
}

// write applies one write and checks its outcome against the model.
func (m *machine) write(key uint64, b *blob) {
	e := m.model[key]
	n := b.needle(key)
	unchanged, err := m.store.WriteVolumeNeedle(m.vid, n, m.async)
	res := "ok"
	if err != nil {
		res = "err"
	} else if unchanged {
		res = "unchanged"
	}
	m.log(fmt.Sprintf("W(%s %s)->%s", kname(m.keys, key), b, res))
	switch {
	case m.readonly:
		m.classes["write-readonly"] = true
		if err == nil {
			m.fail("write of %s to a read-only volume was accepted", kname(m.keys, key))
		}
	case e.state == live && e.blob.cookie != b.cookie:
		m.classes["write-cookie-mismatch"] = true
		if err == nil {
			m.fail("write of %s with cookie %08x was accepted although the stored blob has cookie %08x", kname(m.keys, key), b.cookie, e.blob.cookie)
		}
	case e.state == deleted && e.blob.cookie != b.cookie:
		// not decided by the statement: either outcome, but consistently
		if err == nil {
			m.classes["write-deleted-other-cookie-accepted"] = true
		} else {
			m.classes["write-deleted-other-cookie-rejected"] = true
		}
	default:
		if err != nil {
			m.fail("write of %s {%s} was rejected: %v", kname(m.keys, key), b, err)
		}
	}
	if err == nil {
		if unchanged {
			m.classes["write-unchanged"] = true
			if e.state != live || e.blob.cookie != b.cookie || !bytes.Equal(e.blob.data, b.data) {
				m.fail("write of %s {%s} reported as unchanged, but the stored blob is state=%d {%s}", kname(m.keys, key), b, e.state, e.blob)
			}
			if d := metaDiff(b, stored(e.blob)); d != "" {
				m.fail("[%s] write of %s {%s} succeeded as 'unchanged' but the stored blob differs from it: %s", findUnchangedMeta, kname(m.keys, key), b, d)
			}
			// nothing was written; last-modified legitimately stays
		} else {
			if e.state != absent {
				m.rewrote = true
				m.classes["overwrite"] = true
				if e.state == deleted {
					m.classes["write-after-delete"] = true
				}
			}
			if len(b.data) == 0 {
				m.classes["write-empty"] = true
			}
			if m.late[key] {
				m.classes["write-late-key"] = true
			}
			e.state, e.blob = live, b
		}
	}
	m.checkAll()
}

// stored maps a written blob to what a read must return.
func stored(b *blob) *blob {
	w := &blob{cookie: b.cookie, data: b.data, flags: b.flags, ttl: [2]byte{}}
	if b.has(fName) {
		w.name = b.name
	}
	if b.has(fMime) {
		w.mime = b.mime
	}
	if b.has(fPairs) {
		w.pairs = b.pairs
	}
	if b.has(fTTL) {
		w.ttl = b.ttl
	}
	w.lm, _ = lmOf(b)
	return w
}

func (m *machine) del(key uint64, cookie uint32) {
	e := m.model[key]
	n := &needle.Needle{Id: types.NeedleId(key), Cookie: types.Cookie(cookie)}
	size, err := m.store.DeleteVolumeNeedle(m.vid, n)
	m.log(fmt.Sprintf("D(%s c=%08x)->%d,%v", kname(m.keys, key), cookie, size, err != nil))
	switch {
	case m.readonly:
		m.classes["delete-readonly"] = true
		if err == nil {
			m.fail("delete of %s on a read-only volume was accepted", kname(m.keys, key))
		}
	case e.state == live:
		if err != nil {
			m.fail("delete of live %s failed: %v", kname(m.keys, key), err)
		}
		m.classes["delete-live"] = true
		if m.late[key] {
			m.classes["delete-live-late-key"] = true
		}
		if len(e.blob.data) == 0 {
			m.classes["delete-live-empty"] = true
		} else if size <= 0 {
			m.fail("delete of live %s {%s} reports %d bytes freed", kname(m.keys, key), e.blob, size)
		}
		e.state = deleted
		m.rewrote = true
	default:
		m.classes["delete-nothing"] = true
		// deleting nothing: whatever is returned, nothing may change (checked below)
	}
	m.checkAll()
}

func (m *machine) setReadonly(ro bool) {
	var err error
	if ro {
		err = m.store.MarkVolumeReadonly(m.vid)
		m.log("RO")
	} else {
		err = m.store.MarkVolumeWritable(m.vid)
		m.log("RW")
	}
	if err != nil {
		m.fail("mark readonly=%v: %v", ro, err)
	}
	m.readonly = ro
	m.classes["readonly-toggle"] = true
	m.checkAll()
}

func (m *machine) reopen(byMount bool) {
	if byMount || !m.ownStore {
		m.log("REMOUNT")
		if err := m.store.UnmountVolume(m.vid); err != nil {
			m.fail("unmount: %v", err)
		}
		drain(m.store)
		if err := m.store.MountVolume(m.vid); err != nil {
			m.fail("mount: %v", err)
		}
		drain(m.store)
		m.classes["reopen-remount"] = true
	} else {
		m.log("RESTART")
		m.store.Close()
		m.store = newStore(m.dir, m.kind)
		if m.async {
			m.store.SetStopping()
		}
		m.classes["reopen-new-store"] = true
	}
	v := m.store.GetVolume(m.vid)
	if v == nil {
		m.fail("volume %d is gone after reopen", m.vid)
	}
	// MarkVolumeReadonly is an in-memory flag; a cleanly closed volume loads writable
	if v.IsReadOnly() {
		m.fail("volume %d came back read-only after a clean close and reopen", m.vid)
	}
	m.readonly = false
	m.checkAll()
	m.checkKeys(m.extra)
}

// checkAll reads every key of the key universe and compares with the model.
func (m *machine) checkAll() { m.checkKeys(m.keys) }

// checkKeys reads the given keys and compares with the model.
func (m *machine) checkKeys(keys []uint64) {
	for _, k := range keys {
		e := m.model[k]
		n := &needle.Needle{Id: types.NeedleId(k)}
		count, err := m.store.ReadVolumeNeedle(m.vid, n, nil)
		found := err == nil && count >= 0 // what GetOrHeadHandler treats as found
		if e.state != live {
			if found {
				what := "never written"
				if e.state == deleted {
					what = "deleted"
				}
				m.fail("read of %s id %s returns %d bytes {flags=%#02x name=%q}, expected not-found (last stored {%v})", what, kname(m.keys, k), count, n.Flags, short(n.Name), e.blob)
			}
			continue
		}
		w := stored(e.blob)
		if !found {
			m.fail("read of live %s {%s} fails: count=%d err=%v", kname(m.keys, k), e.blob, count, err)
		}
		if count != len(w.data) || !bytes.Equal(n.Data, w.data) {
			m.fail("read of %s returns %d bytes (count %d) that differ from the %d bytes of the last write {%s}", kname(m.keys, k), len(n.Data), count, len(w.data), e.blob)
		}
		got := &blob{cookie: uint32(n.Cookie), flags: n.Flags, name: n.Name, mime: n.Mime, pairs: n.Pairs, lm: n.LastModified}
		if n.Ttl != nil {
			got.ttl = [2]byte{n.Ttl.Count, n.Ttl.Unit}
		}
		if d := metaDiff(e.blob, got); d != "" {
			m.fail("read of %s returns other metadata than the last write {%s}: %s", kname(m.keys, k), e.blob, d)
		}
		if got.flags&fLM != w.flags&fLM || got.lm != w.lm {
			m.fail("read of %s returns last-modified %d (flag %v), last write {%s}", kname(m.keys, k), got.lm, got.flags&fLM != 0, e.blob)
		}
		// an empty blob is answered from the index alone; the needle (and its
		// cookie) is not loaded, so there is nothing to compare (see report)
		if len(w.data) > 0 && got.cookie != w.cookie {
			m.fail("read of %s returns cookie %08x, stored %08x", kname(m.keys, k), got.cookie, w.cookie)
		}
	}
}

func (m *machine) liveEmpty() bool {
	for _, k := range m.keys {
		if e := m.model[k]; e.state == live && len(e.blob.data) == 0 {
			return true
		}
	}
	return false
}

// ------------------------------------------------------------------ random histories

var keySpace = []uint64{1, 2, 9, 1<<32 + 5, 1<<40 + 3, 1<<63 + 11}

// Populated-section prologue.
//
// The in-memory needle map (needle_map/compact_map.go) appends keys that arrive
// in increasing order to CompactSection.values. A NEW key that is smaller than
// the newest one is inserted in place only while the section holds fewer than
// `batch` (100000) keys AND the key is larger than values[counter-128] (the
// `lookBackIndex := cs.counter - 128` test in CompactSection.Set); otherwise it
// goes to the section's sorted `overflow` list, which Set/Get/Delete handle
// through separate code (setOverflowEntry / findOverflowEntry /
// deleteOverflowEntry). With the 6 ids of keySpace a section never holds more
// than 128 keys, so neither the look-back insertion nor the overflow list is
// reached. The prologue therefore writes key 1 (so that the section starts low)
// and n in [130,400] tiny blobs with ascending even keys proBase, proBase+2, ...
// and the key universe of the history is replaced by ids that arrive late:
// far below the populated range and adjacent to each other (overflow), a new odd
// id 150 entries behind the newest key (overflow), a new odd id 20 entries
// behind (in-place look-back insertion), plus ids already inside, at the end of
// and above the range, and one id of another section. It is applied for every
// needle map kind; only the memory kind has this structure.
const proBase = 1000

func proKeys(n int) []uint64 {
	ks := make([]uint64, 0, n+1)
	ks = append(ks, 1)
	for i := 0; i < n; i++ {
		ks = append(ks, proBase+2*uint64(i))
	}
	return ks
}

// proUniverse returns the key universe used behind a prologue of n keys and the
// subset of it that arrives late (new ids below the newest prologue key).
func proUniverse(n int) (universe []uint64, late map[uint64]bool) {
	last := proBase + 2*uint64(n-1)
	lateKeys := []uint64{500, 501, 502, 2, last - 2*150 + 1, last - 2*20 + 1}
	late = map[uint64]bool{}
	for _, k := range lateKeys {
		late[k] = true
	}
	universe = []uint64{500, last - 2*150 + 1, 501, proBase + 2*uint64(n/2), 2, last - 2*20 + 1, last, 502, last + 7, 1<<40 + 3, 1}
	return universe, late
}

// prologue populates the section. It is not part of the generated (shrinkable)
// operation list: everything is derived from n and written through the plain
// (non-fsync) write path without per-step read-back.
func (m *machine) prologue(n int, cookie uint32) {
	inUniverse := map[uint64]bool{}
	for _, k := range m.keys {
		inUniverse[k] = true
	}
	for _, k := range proKeys(n) {
		b := &blob{cookie: cookie, data: fill(k, 1+int(k%3)), dtag: fmt.Sprintf("%dB/%x", 1+k%3, k)}
		if _, err := m.store.WriteVolumeNeedle(m.vid, b.needle(k), false); err != nil {
			m.fail("prologue write of id %d: %v", k, err)
		}
		m.model[k] = &entry{state: live, blob: b}
		if !inUniverse[k] {
			m.extra = append(m.extra, k)
		}
	}
	var names []string
	for i, k := range m.keys {
		names = append(names, fmt.Sprintf("k%d=%d", i, k))
	}
	m.log(fmt.Sprintf("PROLOGUE(ids 1,%d,%d..%d c=%08x) KEYS[%s]", proBase, proBase+2, proBase+2*(n-1), cookie, strings.Join(names, " ")))
	m.classes["prologue-populated-section"] = true
	m.checkAll()
	m.checkKeys(m.extra)
}

type pools struct {
	data  [][2]uint64 // seed, len
	names [][]byte
	mimes [][]byte
	pairs [][]byte
}

func genPools(t *rapid.T) *pools {
	p := &pools{}
	dl := rapid.OneOf(rapid.SampledFrom([]int{1, 7, 8, 9, 255, 256}), rapid.IntRange(1, 65536), rapid.IntRange(1, 300))
	for i := 0; i < 3; i++ {
		p.data = append(p.data, [2]uint64{rapid.Uint64Range(1, 1<<20).Draw(t, "poolDataSeed"), uint64(dl.Draw(t, "poolDataLen"))})
	}
	p.names = [][]byte{[]byte(""), []byte("a.txt"), printable(rapid.Uint64Range(0, 99).Draw(t, "nameSeed"), 255), []byte("b.jpg")}
	p.mimes = [][]byte{[]byte(""), []byte("text/plain"), printable(rapid.Uint64Range(0, 99).Draw(t, "mimeSeed"), 255), []byte("image/jpeg")}
	big := []byte(`{"k0":"`)
	big = append(big, printable(7, 3000)...)
	big = append(big, []byte(`"}`)...)
	p.pairs = [][]byte{[]byte(`{"a":"b"}`), big, []byte(`{"x":"y","z":"w"}`)}
	return p
}

func genBlob(t *rapid.T, p *pools, cookies [2]uint32, allowEmpty bool, m *machine, key uint64) *blob {
	b := &blob{}
	b.cookie = cookies[0]
	if rapid.IntRange(0, 4).Draw(t, "otherCookie") == 0 {
		b.cookie = cookies[1]
	}
	e := m.model[key]
	sameAsStored := e.state == live && len(e.blob.data) > 0 && rapid.IntRange(0, 3).Draw(t, "sameData") == 0
	switch {
	case sameAsStored:
		b.data, b.dtag = e.blob.data, e.blob.dtag
		switch rapid.IntRange(0, 2).Draw(t, "sameMeta") {
		case 0: // identical re-upload (possibly another last-modified)
			*b = blob{cookie: b.cookie, data: b.data, dtag: b.dtag, flags: e.blob.flags, name: e.blob.name, mime: e.blob.mime, pairs: e.blob.pairs, lm: e.blob.lm, ttl: e.blob.ttl}
			if b.has(fLM) && rapid.Bool().Draw(t, "newLM") {
				b.lm = rapid.SampledFrom([]uint64{1000000000, 4000000000, 1600000000}).Draw(t, "lm")
			}
			return b
		}
	default:
		pick := rapid.IntRange(0, 9).Draw(t, "data")
		switch {
		case pick == 0 && allowEmpty:
			b.data, b.dtag = nil, "0B"
		case pick <= 6:
			d := p.data[pick%3]
			b.data, b.dtag = fill(d[0], int(d[1])), fmt.Sprintf("%dB/%x", d[1], d[0])
		default:
			seed := rapid.Uint64Range(1, 1<<20).Draw(t, "dataSeed")
			l := rapid.OneOf(rapid.SampledFrom([]int{1, 7, 8, 9, 255, 256}), rapid.IntRange(1, 2000)).Draw(t, "dataLen")
			b.data, b.dtag = fill(seed, l), fmt.Sprintf("%dB/%x", l, seed)
		}
	}
	if len(b.data) == 0 && vlib.Known(findEmptyMeta) {
		vlib.Excluded(findEmptyMeta)
		return b // empty payload: no metadata at all
	}
	if i := rapid.IntRange(-2, len(p.names)-1).Draw(t, "name"); i >= 0 {
		b.flags |= fName
		b.name = p.names[i]
	}
	if i := rapid.IntRange(-2, len(p.mimes)-1).Draw(t, "mime"); i >= 0 {
		b.flags |= fMime
		b.mime = p.mimes[i]
	}
	if i := rapid.IntRange(-4, len(p.pairs)-1).Draw(t, "pairs"); i >= 0 {
		b.flags |= fPairs
		b.pairs = p.pairs[i]
	}
	if i := rapid.IntRange(0, 4).Draw(t, "lm"); i > 0 {
		b.flags |= fLM
		b.lm = []uint64{0, 1000000000, 4000000000, 1<<40 - 1, 1600000000}[i]
	}
	if rapid.IntRange(0, 5).Draw(t, "gzip") == 0 {
		b.flags |= fCompressed
	}
	if rapid.IntRange(0, 7).Draw(t, "manifest") == 0 {
		b.flags |= fManifest
	}
	if rapid.IntRange(0, 5).Draw(t, "ttl") == 0 {
		b.flags |= fTTL
		b.ttl = rapid.SampledFrom([][2]byte{{2, needle.Hour}, {1, needle.Year}, {255, needle.Day}}).Draw(t, "ttlValue")
	}
	if vlib.Known(findUnchangedMeta) && e.state == live && len(b.data) > 0 && b.cookie == e.blob.cookie &&
		bytes.Equal(b.data, e.blob.data) && metaDiff(b, stored(e.blob)) != "" {
		// same data + same cookie as the stored blob but other metadata is exactly the
		// listed finding: keep the stored metadata (last-modified stays as drawn)
		vlib.Excluded(findUnchangedMeta)
		b.flags = e.blob.flags&^fLM | b.flags&fLM
		b.name, b.mime, b.pairs, b.ttl = e.blob.name, e.blob.mime, e.blob.pairs, e.blob.ttl
	}
	return b
}

func TestPropHistories(t *testing.T) {
	vlib.Check(t, 300, 6000, func(t *rapid.T) {
		kind := storage.NeedleMapInMemory
		if rapid.IntRange(0, 2).Draw(t, "leveldb") == 0 {
			kind = storage.NeedleMapLevelDb
		}
		async := rapid.IntRange(0, 3).Draw(t, "asyncFsync") == 0
		allowEmpty := rapid.IntRange(0, 2).Draw(t, "allowEmpty") > 0
		cookies := [2]uint32{
			rapid.OneOf(rapid.Uint32(), rapid.SampledFrom([]uint32{0, 1, 0xffffffff})).Draw(t, "cookie0"), 0}
		cookies[1] = cookies[0] ^ rapid.Uint32Range(1, 0xffffffff).Draw(t, "cookieDelta")
		// populated-section prologue (see proKeys): one drawn count, 0 = none
		pro := 0
		if rapid.IntRange(0, 4).Draw(t, "populate") >= 3 {
			pro = rapid.IntRange(130, 400).Draw(t, "prologueKeys")
		}
		universe, late := keySpace, map[uint64]bool(nil)
		if pro > 0 {
			universe, late = proUniverse(pro)
		}
		nk := rapid.IntRange(1, len(universe)).Draw(t, "keys")
		keys := append([]uint64{}, universe...)
		// which keys are used (a drawn rotation, so that large ids can come first)
		rot := rapid.IntRange(0, len(keys)-1).Draw(t, "keyRotation")
		keys = append(keys[rot:], keys[:rot]...)[:nk]
		p := genPools(t)
		m := newMachine(t, kind, async, keys)
		defer m.close()
		if pro > 0 {
			m.late = late
			m.prologue(pro, cookies[0])
		}
		nops := rapid.IntRange(1, 40).Draw(t, "ops")
		for i := 0; i < nops; i++ {
			key := keys[rapid.IntRange(0, len(keys)-1).Draw(t, "key")]
			op := rapid.IntRange(0, 19).Draw(t, "op")
			switch {
			case op <= 10:
				m.write(key, genBlob(t, p, cookies, allowEmpty, m, key))
			case op <= 15:
				e := m.model[key]
				if e.state == live && len(e.blob.data) == 0 && vlib.Known(findEmptyDelete) {
					vlib.Excluded(findEmptyDelete)
					continue
				}
				c := cookies[rapid.IntRange(0, 1).Draw(t, "delCookie")]
				m.del(key, c)
			case op == 16:
				m.setReadonly(true)
			case op == 17:
				m.setReadonly(false)
			default:
				if m.liveEmpty() && vlib.Known(findEmptyReload) {
					vlib.Excluded(findEmptyReload)
					continue
				}
				m.reopen(op == 19)
			}
		}
		var cls []string
		first := "history-memory"
		if kind == storage.NeedleMapLevelDb {
			first = "history-leveldb"
		}
		cls = append(cls, first)
		if async {
			cls = append(cls, "async-fsync-path")
		}
		m.checkKeys(m.extra) // the untouched prologue blobs are still what was written
		for c := range m.classes {
			cls = append(cls, c)
		}
		sortStrings(cls[1:])
		vlib.Case(fmt.Sprintf("kind=%d async=%v keys=%d: %s", kind, async, nk, strings.Join(m.trace, " ; ")), m.rewrote, cls...)
	})
}

func sortStrings(s []string) {
	for i := 1; i < len(s); i++ {
		for j := i; j > 0 && s[j] < s[j-1]; j-- {
			s[j], s[j-1] = s[j-1], s[j]
		}
	}
}
