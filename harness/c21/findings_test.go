//go:build verif
// +build verif

package c21

import (
	"fmt"
	"strings"
	"testing"

	"github.com/chrislusf/seaweedfs/weed/pb/filer_pb"

	"verifharness/c20/fdrv"
	"verifharness/vlib"
)

type probe struct {
	e    *fdrv.Env
	root string
	seq  int
	log  []string
}

func newProbe() *probe {
	e := fdrv.Get()
	root, seq := e.NextCase()
	return &probe{e: e, root: root, seq: seq}
}

func (p *probe) put(path string, mtime int64, chunks ...*filer_pb.FileChunk) {
	dir, name := fdrv.SplitPath(p.root + path)
	err := p.e.Create(dir, &filer_pb.Entry{Name: name, Attributes: attrs(mtime, 0644, 10), Chunks: chunks}, false)
	p.log = append(p.log, fmt.Sprintf("put %s [%s] -> %v", path, p.e.FmtChunks(chunks), err))
}

func (p *probe) link(a, b string) []byte {
	id := fdrv.NewLinkId(p.seq, 'P')
	err := p.e.Link(p.root+a, p.root+b, id)
	p.log = append(p.log, fmt.Sprintf("link %s %s -> %v", a, b, err))
	return id
}

func (p *probe) cleanup() {
	_ = p.e.Delete("/", strings.TrimPrefix(p.root, "/"), false, true, true)
	p.e.Drain()
}

func (p *probe) detail(extra string) string { return strings.Join(p.log, "; ") + "; " + extra }

func (p *probe) counter(id []byte) string {
	rec, found, err := p.e.KvGetLink(id)
	if err != nil {
		return "error " + err.Error()
	}
	if !found {
		return "no record"
	}
	return fmt.Sprintf("HardLinkCounter=%d", rec.HardLinkCounter)
}

func TestFindingListingStale(t *testing.T) {
	p := newProbe()
	defer p.cleanup()
	p.put("/e", 1, p.e.DataChunk(0, 10, 1))
	p.link("/e", "/c")
	ent, _ := p.e.Lookup(p.root + "/c")
	f2 := p.e.DataChunk(0, 10, 2)
	ent.Chunks = []*filer_pb.FileChunk{f2}
	ent.Attributes.Mtime = 7
	err := p.e.Create(p.root, ent, false)
	ents, _ := p.e.List(p.root)
	var listedE, listedC string
	for _, le := range ents {
		if le.Name == "e" {
			listedE = p.e.FmtChunks(le.Chunks)
		}
		if le.Name == "c" {
			listedC = p.e.FmtChunks(le.Chunks)
		}
	}
	found, _ := p.e.Lookup(p.root + "/e")
	vlib.Finding(t, "C21-listing-shows-stale-hardlink-copy", listedE != listedC,
		p.detail(fmt.Sprintf("write through /c [%s] -> %v; lookup /e shows [%s]; ListEntries shows /e [%s] and /c [%s]", p.e.FmtChunks(ent.Chunks), err, p.e.FmtChunks(found.GetChunks()), listedE, listedC)))
}

func TestFindingOverwriteKeepsCounter(t *testing.T) {
	p := newProbe()
	defer p.cleanup()
	p.put("/e", 1, p.e.DataChunk(0, 10, 1))
	id := p.link("/e", "/c")
	p.put("/c", 2, p.e.DataChunk(0, 10, 2)) // entry without hard link id
	c1 := p.counter(id)
	err := p.e.Delete(p.root, "e", true, false, false)
	c2 := p.counter(id)
	vlib.Finding(t, "C21-overwrite-linked-name-keeps-counter", c1 != "HardLinkCounter=1" || c2 != "no record",
		p.detail(fmt.Sprintf("after the plain put over /c the shared record has %s (live names: /e); after DeleteEntry(/e) -> %v it has %s (live names: none)", c1, err, c2)))
}

func TestFindingRenameDropsHardLink(t *testing.T) {
	p := newProbe()
	defer p.cleanup()
	p.put("/d", 1, p.e.DataChunk(0, 10, 1))
	id := p.link("/d", "/a")
	err := p.e.Rename(p.root, "a", p.root, "c")
	c, _ := p.e.Lookup(p.root + "/c")
	cnt := p.counter(id)
	vlib.Finding(t, "C21-rename-drops-hardlink", c == nil || len(c.HardLinkId) == 0 || cnt != "HardLinkCounter=2",
		p.detail(fmt.Sprintf("rename /a /c -> %v; /c has hard link id %q; shared record has %s (live names: /d /c)", err, c.GetHardLinkId(), cnt)))
}

func TestFindingRecursiveDeleteNoData(t *testing.T) {
	p := newProbe()
	defer p.cleanup()
	p.put("/a", 1, p.e.DataChunk(0, 10, 1))
	id := p.link("/a", "/s/c")
	err := p.e.Delete(p.root, "s", false, true, false)
	cnt := p.counter(id)
	vlib.Finding(t, "C21-recursive-delete-without-data-keeps-counter", cnt != "HardLinkCounter=1",
		p.detail(fmt.Sprintf("DeleteEntry(/s,isRecursive=true,isDeleteData=false) -> %v; shared record has %s (live names: /a)", err, cnt)))
}
