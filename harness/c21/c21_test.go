//go:build verif
// +build verif

// C21 Hard links share one file.
package c21

import (
	"bytes"
	"fmt"
	"sort"
	"strings"
	"testing"

	"github.com/chrislusf/seaweedfs/weed/pb/filer_pb"
	"pgregory.net/rapid"

	"verifharness/c20/fdrv"
	"verifharness/vlib"
)

func TestMain(m *testing.M) {
	vlib.Rule("C21: histories of 3-14 operations over the names /a /b /s/c /s/d (+ /e as a spare) and up to 3 link identities on a real Filer (leveldb2) through the FilerServer gRPC handlers: " +
		"plain put (also over a linked name), link by the mount's two-request protocol, write and setattr through any name (CreateEntry or UpdateEntry with the freshly looked-up entry; chmod keeps mtime), writing a file back to exactly the state last written through one of its names (A-B-A), append, " +
		"unlink with the mount's isDeleteData=counter<=1 rule and with plain isDeleteData true/false, rename of linked and plain names to free names and onto names of another identity, rename of the directory /s to /t and back, recursive delete of /s or /t with and without data. " +
		"After every step every name is looked up and listed and the KV record of every identity is read. Non-trivial = some identity had >=2 names and an update, rename, unlink or overwrite went through a name other than the identity's first name. Distinct = distinct written-out history.")
	vlib.Assume("C21: the client protocols are mirrored from weed/filesys (Link: UpdateEntry(old, id, counter+1) then CreateEntry(new); writes send the entry as just looked up, hard link id and counter included; the link target does not exist). A rename between two names of the same identity is not generated (POSIX makes it a no-op; the filer API has no such notion).")
	vlib.Main(m)
}

// allNames are the names operations create; everyName adds the names that only
// a rename of the directory /s to /t produces.
var allNames = []string{"/a", "/b", "/s/c", "/s/d", "/e"}
var everyName = []string{"/a", "/b", "/s/c", "/s/d", "/e", "/t/c", "/t/d"}

// content is what a file (plain or shared) looks like.
type content struct {
	chunks string // rendered chunk list
	mtime  int64
	mode   uint32
	ext    string
}

type identity struct {
	id    []byte
	c     content
	names map[string]bool
	first string // the name the identity was created from
	ever  bool
}

type model struct {
	plain map[string]*content // path -> content of plain files
	link  map[string]int      // path -> identity index
	ids   []*identity
	dirs  map[string]bool // which of /s, /t exist
}

type sim struct {
	t       *rapid.T
	e       *fdrv.Env
	root    string
	seq     int
	clock   int64
	m       *model
	hist    []string
	classes map[string]bool
	nontriv bool
	// last[n] is the entry (attributes, chunks, extended) last written through name n
	// by write/setattr/writeback, verbatim; forgotten when n goes away
	last map[string]*filer_pb.Entry
}

func (s *sim) abs(n string) string { return s.root + n }

func (s *sim) exists(n string) bool {
	_, p := s.m.plain[n]
	_, l := s.m.link[n]
	return p || l
}

func (s *sim) existing() []string {
	var out []string
	for _, n := range everyName {
		if s.exists(n) {
			out = append(out, n)
		}
	}
	return out
}

func (s *sim) free() []string {
	var out []string
	for _, n := range allNames {
		if !s.exists(n) {
			out = append(out, n)
		}
	}
	return out
}

func (s *sim) linkedNames() []string {
	var out []string
	for _, n := range allNames {
		if _, ok := s.m.link[n]; ok {
			out = append(out, n)
		}
	}
	return out
}

func renderChunks(e *fdrv.Env, chunks []*filer_pb.FileChunk) string { return e.FmtChunks(chunks) }

func attrs(mtime int64, mode uint32, size uint64) *filer_pb.FuseAttributes {
	return &filer_pb.FuseAttributes{Mtime: mtime, Crtime: 1600000000, FileMode: mode, Uid: 1000, Gid: 1000, FileSize: size}
}

func renderExt(m map[string][]byte) string {
	var ks []string
	for k := range m {
		ks = append(ks, k)
	}
	sort.Strings(ks)
	var b strings.Builder
	for _, k := range ks {
		fmt.Fprintf(&b, "%s=%s;", k, m[k])
	}
	return b.String()
}

func contentOf(e *fdrv.Env, ent *filer_pb.Entry) content {
	c := content{chunks: renderChunks(e, ent.Chunks), ext: renderExt(ent.Extended)}
	if ent.Attributes != nil {
		c.mtime, c.mode = ent.Attributes.Mtime, ent.Attributes.FileMode
	}
	return c
}

func (s *sim) fresh(label string) []*filer_pb.FileChunk {
	n := rapid.IntRange(1, 2).Draw(s.t, label+".n")
	var out []*filer_pb.FileChunk
	for i := 0; i < n; i++ {
		s.clock++
		out = append(out, s.e.DataChunk(int64(i)*10, 10, s.clock))
	}
	return out
}

// dropName removes a name from the model (unlink / overwritten / renamed away).
func (s *sim) dropName(n string) {
	if i, ok := s.m.link[n]; ok {
		delete(s.m.identity(i).names, n)
		delete(s.m.link, n)
	}
	delete(s.m.plain, n)
	delete(s.last, n)
}

func (m *model) identity(i int) *identity { return m.ids[i] }

// throughOther marks the non-trivial rule when the step goes through a name of
// a shared identity other than its first name.
func (s *sim) throughOther(n string) {
	if i, ok := s.m.link[n]; ok {
		id := s.m.ids[i]
		if len(id.names) >= 2 && n != id.first {
			s.nontriv = true
		}
	}
}

func errStr(err error) string {
	if err == nil {
		return "ok"
	}
	return "error(" + err.Error() + ")"
}

func (s *sim) fail(format string, args ...interface{}) {
	s.t.Fatalf("%s\nhistory:\n  %s", fmt.Sprintf(format, args...), strings.Join(s.hist, "\n  "))
}

func (s *sim) step(i int) {
	t, e := s.t, s.e
	lbl := fmt.Sprintf("s%d", i)
	kinds := []string{"put", "link", "link", "write", "write", "setattr", "setattr", "writeback", "writeback", "unlink", "unlink", "rename", "rename", "append", "rmdir", "mvdir"}
	if len(s.existing()) == 0 {
		kinds = []string{"put"}
	}
	kind := rapid.SampledFrom(kinds).Draw(t, fmt.Sprintf("op%d", i))
	switch kind {
	case "put":
		// HTTP/S3 style: a new entry without hard link id, at a free or an existing name
		n := rapid.SampledFrom(allNames).Draw(t, lbl+".name")
		if _, linked := s.m.link[n]; linked {
			if vlib.Known("C21-overwrite-linked-name-keeps-counter") {
				vlib.Excluded("C21-overwrite-linked-name-keeps-counter")
				s.hist = append(s.hist, "skip(put-over-linked excluded)")
				return
			}
			s.classes["put-over-linked"] = true
			s.throughOther(n)
			if len(s.m.ids[s.m.link[n]].names) >= 2 {
				s.nontriv = true
			}
		}
		chunks := s.fresh(lbl + ".chunks")
		s.clock++
		mode := uint32(0644)
		dir, name := fdrv.SplitPath(s.abs(n))
		sent := &filer_pb.Entry{Name: name, Attributes: attrs(s.clock, mode, 10*uint64(len(chunks))), Chunks: chunks}
		err := e.Create(dir, sent, false)
		s.hist = append(s.hist, fmt.Sprintf("put %s [%s] -> %s", n, renderChunks(e, chunks), errStr(err)))
		if err != nil {
			s.fail("put %s failed: %v", n, err)
		}
		s.dropName(n)
		s.last[n] = fdrv.CloneEntry(sent)
		s.m.plain[n] = &content{chunks: renderChunks(e, chunks), mtime: s.clock, mode: mode}
		s.noteDir(n)

	case "link":
		src := rapid.SampledFrom(s.existing()).Draw(t, lbl+".src")
		fr := s.free()
		if len(fr) == 0 {
			s.hist = append(s.hist, "skip(link: no free name)")
			return
		}
		dst := rapid.SampledFrom(fr).Draw(t, lbl+".dst")
		newId := fdrv.NewLinkId(s.seq, byte('A'+len(s.m.ids)))
		err := e.Link(s.abs(src), s.abs(dst), newId)
		s.hist = append(s.hist, fmt.Sprintf("link %s %s -> %s", src, dst, errStr(err)))
		if err != nil {
			s.fail("link failed: %v", err)
		}
		if c, ok := s.m.plain[src]; ok {
			delete(s.m.plain, src)
			s.m.ids = append(s.m.ids, &identity{id: newId, c: *c, names: map[string]bool{src: true}, first: src, ever: true})
			s.m.link[src] = len(s.m.ids) - 1
		} else {
			s.throughOther(src)
		}
		idx := s.m.link[src]
		s.m.ids[idx].names[dst] = true
		s.m.link[dst] = idx
		s.noteDir(dst)
		s.classes["link"] = true
		if len(s.m.ids) >= 2 {
			s.classes["two-identities"] = true
		}

	case "write", "setattr", "append":
		n := rapid.SampledFrom(s.existing()).Draw(t, lbl+".name")
		s.throughOther(n)
		var err error
		var desc string
		var nc content
		if kind == "append" {
			s.clock++
			ch := []*filer_pb.FileChunk{e.DataChunk(0, 10, s.clock)}
			dir, name := fdrv.SplitPath(s.abs(n))
			err = e.Append(dir, name, ch)
			desc = fmt.Sprintf("append %s [%s]", n, renderChunks(e, ch))
			if err == nil {
				// the server lays the chunk out after the existing ones; read the result
				// through this very name and expect every other name to show the same
				ent, lerr := e.Lookup(s.abs(n))
				if lerr != nil || ent == nil {
					s.hist = append(s.hist, desc)
					s.fail("lookup after append failed: %v", lerr)
				}
				nc = contentOf(e, ent)
				if !strings.Contains(nc.chunks, renderChunks(e, ch)[:strings.Index(renderChunks(e, ch), "@")]) {
					s.hist = append(s.hist, desc)
					s.fail("appended chunk not visible through %s: %s", n, nc.chunks)
				}
			}
		} else {
			ent, lerr := e.Lookup(s.abs(n))
			if lerr != nil || ent == nil {
				s.fail("lookup %s before %s failed: %v", n, kind, lerr)
			}
			via := rapid.SampledFrom([]string{"create", "create", "update"}).Draw(t, lbl+".via")
			s.clock++
			if kind == "write" {
				ent.Chunks = s.fresh(lbl + ".chunks")
				ent.Attributes.FileSize = 10 * uint64(len(ent.Chunks))
				ent.Attributes.Mtime = s.clock
			} else {
				ent.Attributes.FileMode = rapid.SampledFrom([]uint32{0600, 0640, 0755}).Draw(t, lbl+".mode")
				if rapid.Bool().Draw(t, lbl+".touch") {
					ent.Attributes.Mtime = s.clock // utimes; a plain chmod keeps mtime
				}
				if rapid.Bool().Draw(t, lbl+".xattr") {
					ent.Extended = map[string][]byte{"user.k": []byte(fmt.Sprintf("v%d", s.clock))}
				}
			}
			dir, _ := fdrv.SplitPath(s.abs(n))
			if via == "update" {
				err = e.Update(dir, ent)
			} else {
				err = e.Create(dir, ent, false)
			}
			nc = contentOf(e, ent)
			desc = fmt.Sprintf("%s(%s) %s [%s] mode=%o mtime=%d ext=%s", kind, via, n, nc.chunks, nc.mode, nc.mtime, nc.ext)
			if err == nil {
				s.last[n] = fdrv.CloneEntry(ent)
			}
		}
		s.hist = append(s.hist, desc+" -> "+errStr(err))
		if err != nil {
			s.fail("%s failed: %v", kind, err)
		}
		if idx, ok := s.m.link[n]; ok {
			s.m.ids[idx].c = nc
			s.classes[kind+"-through-linked"] = true
		} else {
			s.m.plain[n] = &nc
		}

	case "writeback":
		// set a file back to exactly the state last written through one of its names
		// (attributes to the second, chunks, extended attributes), through that name:
		// e.g. chmod 600 through /b followed by chmod 644 through /a. The entry is sent
		// as just looked up (current hard link id and counter) with the remembered values.
		var cands []string
		for _, n := range s.existing() {
			rem := s.last[n]
			if rem == nil {
				continue
			}
			cur := s.m.plain[n]
			if idx, ok := s.m.link[n]; ok {
				cur = &s.m.ids[idx].c
			}
			if cur != nil && *cur != contentOf(e, rem) {
				cands = append(cands, n)
			}
		}
		if len(cands) == 0 {
			s.hist = append(s.hist, "skip(writeback: no earlier state to restore)")
			return
		}
		n := rapid.SampledFrom(cands).Draw(t, lbl+".name")
		s.throughOther(n)
		rem := s.last[n]
		ent, lerr := e.Lookup(s.abs(n))
		if lerr != nil || ent == nil {
			s.fail("lookup %s before writeback failed: %v", n, lerr)
		}
		via := rapid.SampledFrom([]string{"create", "create", "update"}).Draw(t, lbl+".via")
		keep := fdrv.CloneEntry(rem)
		ent.Attributes = keep.Attributes
		ent.Chunks = keep.Chunks
		ent.Extended = keep.Extended
		dir, _ := fdrv.SplitPath(s.abs(n))
		var err error
		if via == "update" {
			err = e.Update(dir, ent)
		} else {
			err = e.Create(dir, ent, false)
		}
		nc := contentOf(e, ent)
		s.hist = append(s.hist, fmt.Sprintf("writeback(%s) %s [%s] mode=%o mtime=%d ext=%s -> %s", via, n, nc.chunks, nc.mode, nc.mtime, nc.ext, errStr(err)))
		if err != nil {
			s.fail("writeback failed: %v", err)
		}
		s.last[n] = fdrv.CloneEntry(ent)
		if idx, ok := s.m.link[n]; ok {
			if len(s.m.ids[idx].names) >= 2 {
				s.classes["writeback-through-linked"] = true
				s.nontriv = true
			}
			s.m.ids[idx].c = nc
		} else {
			s.m.plain[n] = &nc
		}

	case "unlink":
		n := rapid.SampledFrom(s.existing()).Draw(t, lbl+".name")
		s.throughOther(n)
		how := rapid.SampledFrom([]string{"mount", "mount", "data", "nodata"}).Draw(t, lbl+".how")
		var err error
		dir, name := fdrv.SplitPath(s.abs(n))
		switch how {
		case "mount":
			_, err = e.UnlinkMount(s.abs(n))
		case "data":
			err = e.Delete(dir, name, true, false, false)
		case "nodata":
			err = e.Delete(dir, name, false, false, false)
		}
		s.hist = append(s.hist, fmt.Sprintf("unlink(%s) %s -> %s", how, n, errStr(err)))
		if err != nil {
			s.fail("unlink failed: %v", err)
		}
		if _, ok := s.m.link[n]; ok {
			s.classes["unlink-linked"] = true
		}
		s.dropName(n)

	case "rename":
		src := rapid.SampledFrom(s.existing()).Draw(t, lbl+".src")
		var dsts []string
		for _, d := range allNames {
			if d == src {
				continue
			}
			si, sl := s.m.link[src]
			di, dl := s.m.link[d]
			if sl && dl && si == di {
				continue // two names of one identity: not generated
			}
			dsts = append(dsts, d)
		}
		if len(dsts) == 0 {
			s.hist = append(s.hist, "skip(rename: no destination)")
			return
		}
		dst := rapid.SampledFrom(dsts).Draw(t, lbl+".dst")
		_, srcLinked := s.m.link[src]
		_, dstLinked := s.m.link[dst]
		if srcLinked && vlib.Known("C21-rename-drops-hardlink") {
			vlib.Excluded("C21-rename-drops-hardlink")
			s.hist = append(s.hist, "skip(rename of linked name excluded)")
			return
		}
		if dstLinked && vlib.Known("C21-overwrite-linked-name-keeps-counter") {
			vlib.Excluded("C21-overwrite-linked-name-keeps-counter")
			s.hist = append(s.hist, "skip(rename onto linked name excluded)")
			return
		}
		s.throughOther(src)
		s.throughOther(dst)
		od, on := fdrv.SplitPath(s.abs(src))
		nd, nn := fdrv.SplitPath(s.abs(dst))
		err := e.Rename(od, on, nd, nn)
		s.hist = append(s.hist, fmt.Sprintf("rename %s %s -> %s", src, dst, errStr(err)))
		if err != nil {
			s.fail("rename failed: %v", err)
		}
		if srcLinked {
			s.classes["rename-linked"] = true
		}
		if dstLinked {
			s.classes["rename-onto-linked"] = true
		}
		// the destination name is replaced; the source name moves
		s.dropName(dst)
		delete(s.last, src)
		if idx, ok := s.m.link[src]; ok {
			id := s.m.ids[idx]
			delete(id.names, src)
			delete(s.m.link, src)
			id.names[dst] = true
			s.m.link[dst] = idx
			if id.first == src {
				id.first = dst
			}
		} else {
			s.m.plain[dst] = s.m.plain[src]
			delete(s.m.plain, src)
		}
		s.noteDir(dst)

	case "rmdir":
		var ds []string
		for _, d := range []string{"/s", "/t"} {
			if s.m.dirs[d] {
				ds = append(ds, d)
			}
		}
		if len(ds) == 0 {
			s.hist = append(s.hist, "skip(rmdir: no directory)")
			return
		}
		d := rapid.SampledFrom(ds).Draw(t, lbl+".dir")
		data := rapid.Bool().Draw(t, lbl+".data")
		hasLinked := false
		for _, n := range []string{d + "/c", d + "/d"} {
			if _, ok := s.m.link[n]; ok {
				hasLinked = true
			}
		}
		if hasLinked && !data && vlib.Known("C21-recursive-delete-without-data-keeps-counter") {
			vlib.Excluded("C21-recursive-delete-without-data-keeps-counter")
			data = true
		}
		err := e.Delete(s.root, d[1:], data, true, false)
		s.hist = append(s.hist, fmt.Sprintf("rmdir -r %s data=%v -> %s", d, data, errStr(err)))
		if err != nil {
			s.fail("recursive delete failed: %v", err)
		}
		for _, n := range []string{d + "/c", d + "/d"} {
			if i, ok := s.m.link[n]; ok && len(s.m.ids[i].names) >= 2 {
				s.nontriv = true
			}
			s.dropName(n)
		}
		delete(s.m.dirs, d)
		if hasLinked {
			s.classes["rmdir-with-linked"] = true
		}

	case "mvdir":
		// rename of the directory holding names: /s -> /t or /t -> /s (destination absent)
		from, to := "/s", "/t"
		if !s.m.dirs["/s"] {
			from, to = "/t", "/s"
		}
		if !s.m.dirs[from] || s.m.dirs[to] {
			s.hist = append(s.hist, "skip(mvdir: needs exactly one of /s, /t)")
			return
		}
		hasLinked := false
		for _, n := range []string{from + "/c", from + "/d"} {
			if _, ok := s.m.link[n]; ok {
				hasLinked = true
			}
		}
		if hasLinked && vlib.Known("C21-rename-drops-hardlink") {
			vlib.Excluded("C21-rename-drops-hardlink")
			s.hist = append(s.hist, "skip(mvdir with linked names excluded)")
			return
		}
		err := e.Rename(s.root, from[1:], s.root, to[1:])
		s.hist = append(s.hist, fmt.Sprintf("mvdir %s %s -> %s", from, to, errStr(err)))
		if err != nil {
			s.fail("directory rename failed: %v", err)
		}
		for _, leaf := range []string{"/c", "/d"} {
			src, dst := from+leaf, to+leaf
			delete(s.last, src)
			if idx, ok := s.m.link[src]; ok {
				id := s.m.ids[idx]
				if len(id.names) >= 2 {
					s.nontriv = true
				}
				delete(id.names, src)
				delete(s.m.link, src)
				id.names[dst] = true
				s.m.link[dst] = idx
				if id.first == src {
					id.first = dst
				}
			} else if c, ok := s.m.plain[src]; ok {
				s.m.plain[dst] = c
				delete(s.m.plain, src)
			}
		}
		delete(s.m.dirs, from)
		s.m.dirs[to] = true
		if hasLinked {
			s.classes["mvdir-with-linked"] = true
		}
	}
}

// noteDir records that creating name n made its parent directory exist.
func (s *sim) noteDir(n string) {
	if strings.HasPrefix(n, "/s/") {
		s.m.dirs["/s"] = true
	}
	if strings.HasPrefix(n, "/t/") {
		s.m.dirs["/t"] = true
	}
}

func sameContent(e *fdrv.Env, ent *filer_pb.Entry, c content) (bool, string) {
	got := contentOf(e, ent)
	if got != c {
		return false, fmt.Sprintf("got {chunks:[%s] mtime:%d mode:%o ext:%s} want {chunks:[%s] mtime:%d mode:%o ext:%s}", got.chunks, got.mtime, got.mode, got.ext, c.chunks, c.mtime, c.mode, c.ext)
	}
	return true, ""
}

// check compares the store with the model.
func (s *sim) check() {
	e := s.e
	listed := map[string]*filer_pb.Entry{}
	for _, d := range []string{"", "/s", "/t"} {
		if d != "" && !s.m.dirs[d] {
			continue
		}
		ents, err := e.List(s.root + d)
		if err != nil {
			s.fail("list %s: %v", d, err)
		}
		for _, le := range ents {
			listed[d+"/"+le.Name] = le
		}
	}
	for _, n := range everyName {
		ent, err := e.Lookup(s.abs(n))
		if err != nil {
			s.fail("lookup %s: %v", n, err)
		}
		le := listed[n]
		if !s.exists(n) {
			if ent != nil || le != nil {
				s.fail("name %s should not exist (lookup=%v listed=%v)", n, ent != nil, le != nil)
			}
			continue
		}
		if ent == nil || le == nil {
			s.fail("name %s should exist (lookup=%v listed=%v)", n, ent != nil, le != nil)
		}
		if c, ok := s.m.plain[n]; ok {
			if len(ent.HardLinkId) != 0 || len(le.HardLinkId) != 0 {
				s.fail("plain name %s carries hard link id %q", n, ent.HardLinkId)
			}
			if ok, d := sameContent(e, ent, *c); !ok {
				s.fail("plain name %s: lookup %s", n, d)
			}
			if ok, d := sameContent(e, le, *c); !ok {
				s.fail("plain name %s: listing %s", n, d)
			}
			continue
		}
		id := s.m.ids[s.m.link[n]]
		if !bytes.Equal(ent.HardLinkId, id.id) {
			s.fail("IDENTITY: name %s should belong to link identity %q, lookup shows hard link id %q", n, id.id, ent.HardLinkId)
		}
		if ok, d := sameContent(e, ent, id.c); !ok {
			s.fail("SHARED CONTENT: name %s of identity %q (names %v): lookup %s", n, id.id, keys(id.names), d)
		}
		if int(ent.HardLinkCounter) != len(id.names) {
			s.fail("COUNTER: name %s of identity %q shows HardLinkCounter=%d, live names are %v", n, id.id, ent.HardLinkCounter, keys(id.names))
		}
		if vlib.Known("C21-listing-shows-stale-hardlink-copy") {
			vlib.Excluded("C21-listing-shows-stale-hardlink-copy")
		} else {
			if ok, d := sameContent(e, le, id.c); !ok {
				s.fail("SHARED CONTENT (listing): name %s of identity %q (names %v): listing %s", n, id.id, keys(id.names), d)
			}
			if int(le.HardLinkCounter) != len(id.names) {
				s.fail("COUNTER (listing): name %s of identity %q is listed with HardLinkCounter=%d, live names are %v", n, id.id, le.HardLinkCounter, keys(id.names))
			}
		}
	}
	for _, id := range s.m.ids {
		rec, found, err := e.KvGetLink(id.id)
		if err != nil {
			s.fail("KvGet %q: %v", id.id, err)
		}
		if len(id.names) == 0 {
			if found {
				s.fail("RECORD: identity %q has no live name left but its shared record still exists (counter %d)", id.id, rec.HardLinkCounter)
			}
			continue
		}
		if !found {
			s.fail("RECORD: identity %q has live names %v but no shared record", id.id, keys(id.names))
		}
		if int(rec.HardLinkCounter) != len(id.names) {
			s.fail("COUNTER: shared record of identity %q has HardLinkCounter=%d, live names are %v", id.id, rec.HardLinkCounter, keys(id.names))
		}
	}
}

func keys(m map[string]bool) []string {
	var out []string
	for k := range m {
		out = append(out, k)
	}
	sort.Strings(out)
	return out
}

func runHistory(t *rapid.T) {
	e := fdrv.Get()
	root, seq := e.NextCase()
	s := &sim{t: t, e: e, root: root, seq: seq, classes: map[string]bool{}, last: map[string]*filer_pb.Entry{},
		m: &model{plain: map[string]*content{}, link: map[string]int{}, dirs: map[string]bool{}}}
	steps := rapid.IntRange(3, 14).Draw(t, "steps")
	for i := 0; i < steps; i++ {
		s.step(i)
		s.check()
	}
	var cl []string
	for c := range s.classes {
		cl = append(cl, c)
	}
	sort.Strings(cl)
	first := "no-link"
	switch {
	case s.classes["rename-linked"] || s.classes["rename-onto-linked"] || s.classes["mvdir-with-linked"]:
		first = "rename-linked"
	case s.classes["put-over-linked"]:
		first = "overwrite-linked"
	case s.classes["writeback-through-linked"]:
		first = "writeback-linked"
	case s.classes["two-identities"]:
		first = "two-identities"
	case s.classes["rmdir-with-linked"]:
		first = "rmdir-linked"
	case s.classes["link"]:
		first = "one-identity"
	}
	vlib.Case(strings.Join(s.hist, " ; "), s.nontriv, append([]string{first}, cl...)...)
	_ = e.Delete("/", strings.TrimPrefix(root, "/"), false, true, true)
	e.Drain()
}

func TestPropHardLinks(t *testing.T) {
	vlib.Check(t, 1500, 25000, runHistory)
}
