package c30

// Harness fakes: an in-process filer (gRPC: AssignVolume, LookupVolume, CreateEntry,
// LookupDirectoryEntry, ListEntries) and an HTTP volume stub that keeps uploaded
// chunks in memory. The real filesys.WFS is wired to them, so dirty pages are
// saved through the real saveDataAsChunk / operation.Upload path.

import (
	"bytes"
	"compress/gzip"
	"context"
	"encoding/json"
	"fmt"
	"io"
	"net"
	"net/http"
	"net/http/httptest"
	"os"
	"sort"
	"strings"
	"sync"
	"sync/atomic"
	"time"

	"github.com/chrislusf/seaweedfs/weed/filesys"
	"github.com/chrislusf/seaweedfs/weed/filesys/meta_cache"
	"github.com/chrislusf/seaweedfs/weed/pb/filer_pb"
	"github.com/chrislusf/seaweedfs/weed/storage/needle"
	"github.com/golang/protobuf/proto"
	"google.golang.org/grpc"
	"google.golang.org/grpc/keepalive"

	"verifharness/vlib"
)

type env struct {
	filer_pb.UnimplementedSeaweedFilerServer

	mu      sync.Mutex
	uploads map[string][]byte          // file id -> clear bytes
	entries map[string]*filer_pb.Entry // full path -> last entry sent with CreateEntry
	creates map[string]int
	nextKey uint64
	nUpload int64

	// gate: when non-nil, uploads block until it is closed (in-flight probe)
	gate chan struct{}

	vol     *httptest.Server
	volHost string
	opt     *filesys.Option
	wfs     *filesys.WFS
	nameSeq int64
}

func (e *env) AssignVolume(ctx context.Context, req *filer_pb.AssignVolumeRequest) (*filer_pb.AssignVolumeResponse, error) {
	key := atomic.AddUint64(&e.nextKey, 1)
	cookie := uint32(key*2654435761+0x5bd1e995) | 1
	fid := needle.NewFileId(7, key, cookie).String()
	return &filer_pb.AssignVolumeResponse{FileId: fid, Url: e.volHost, PublicUrl: e.volHost, Count: 1, Collection: req.Collection, Replication: req.Replication}, nil
}

func (e *env) LookupVolume(ctx context.Context, req *filer_pb.LookupVolumeRequest) (*filer_pb.LookupVolumeResponse, error) {
	resp := &filer_pb.LookupVolumeResponse{LocationsMap: map[string]*filer_pb.Locations{}}
	for _, vid := range req.VolumeIds {
		resp.LocationsMap[vid] = &filer_pb.Locations{Locations: []*filer_pb.Location{{Url: e.volHost, PublicUrl: e.volHost}}}
	}
	return resp, nil
}

func fullPath(dir, name string) string {
	if strings.HasSuffix(dir, "/") {
		return dir + name
	}
	return dir + "/" + name
}

func (e *env) CreateEntry(ctx context.Context, req *filer_pb.CreateEntryRequest) (*filer_pb.CreateEntryResponse, error) {
	e.mu.Lock()
	defer e.mu.Unlock()
	p := fullPath(req.Directory, req.Entry.Name)
	e.entries[p] = proto.Clone(req.Entry).(*filer_pb.Entry)
	e.creates[p]++
	return &filer_pb.CreateEntryResponse{}, nil
}

func (e *env) UpdateEntry(ctx context.Context, req *filer_pb.UpdateEntryRequest) (*filer_pb.UpdateEntryResponse, error) {
	e.mu.Lock()
	defer e.mu.Unlock()
	p := fullPath(req.Directory, req.Entry.Name)
	e.entries[p] = proto.Clone(req.Entry).(*filer_pb.Entry)
	e.creates[p]++
	return &filer_pb.UpdateEntryResponse{}, nil
}

func (e *env) LookupDirectoryEntry(ctx context.Context, req *filer_pb.LookupDirectoryEntryRequest) (*filer_pb.LookupDirectoryEntryResponse, error) {
	e.mu.Lock()
	defer e.mu.Unlock()
	if en, ok := e.entries[fullPath(req.Directory, req.Name)]; ok {
		return &filer_pb.LookupDirectoryEntryResponse{Entry: proto.Clone(en).(*filer_pb.Entry)}, nil
	}
	return nil, filer_pb.ErrNotFound
}

func (e *env) ListEntries(req *filer_pb.ListEntriesRequest, stream filer_pb.SeaweedFiler_ListEntriesServer) error {
	e.mu.Lock()
	var names []string
	for p := range e.entries {
		if strings.HasPrefix(p, fullPath(req.Directory, "")) && !strings.Contains(strings.TrimPrefix(p, fullPath(req.Directory, "")), "/") {
			names = append(names, p)
		}
	}
	sort.Strings(names)
	var out []*filer_pb.Entry
	for _, p := range names {
		en := e.entries[p]
		if en.Name > req.StartFromFileName || (req.InclusiveStartFrom && en.Name == req.StartFromFileName) {
			out = append(out, proto.Clone(en).(*filer_pb.Entry))
		}
	}
	e.mu.Unlock()
	for i, en := range out {
		if req.Limit > 0 && uint32(i) >= req.Limit {
			break
		}
		if err := stream.Send(&filer_pb.ListEntriesResponse{Entry: en}); err != nil {
			return err
		}
	}
	return nil
}

func (e *env) storedEntry(path string) (*filer_pb.Entry, int) {
	e.mu.Lock()
	defer e.mu.Unlock()
	return e.entries[path], e.creates[path]
}

func (e *env) upload(fid string) ([]byte, bool) {
	e.mu.Lock()
	defer e.mu.Unlock()
	d, ok := e.uploads[fid]
	return d, ok
}

func (e *env) uploadCount() int64 { return atomic.LoadInt64(&e.nUpload) }

func (e *env) serveVolume(w http.ResponseWriter, r *http.Request) {
	fid := strings.TrimPrefix(r.URL.Path, "/")
	switch r.Method {
	case http.MethodPost, http.MethodPut:
		e.mu.Lock()
		gate := e.gate
		e.mu.Unlock()
		if gate != nil {
			<-gate
		}
		mr, err := r.MultipartReader()
		if err != nil {
			http.Error(w, `{"error":"not multipart"}`, http.StatusBadRequest)
			return
		}
		part, err := mr.NextPart()
		if err != nil {
			http.Error(w, `{"error":"no part"}`, http.StatusBadRequest)
			return
		}
		data, _ := io.ReadAll(part)
		if part.Header.Get("Content-Encoding") == "gzip" {
			zr, err := gzip.NewReader(bytes.NewReader(data))
			if err == nil {
				data, _ = io.ReadAll(zr)
			}
		}
		e.mu.Lock()
		e.uploads[fid] = data
		e.mu.Unlock()
		atomic.AddInt64(&e.nUpload, 1)
		w.Header().Set("Content-Type", "application/json")
		w.WriteHeader(http.StatusCreated)
		json.NewEncoder(w).Encode(map[string]interface{}{"name": part.FileName(), "size": len(data), "eTag": fmt.Sprintf("%x", len(data))})
	case http.MethodGet, http.MethodHead:
		d, ok := e.upload(fid)
		if !ok {
			http.Error(w, "no such needle "+fid, http.StatusNotFound)
			return
		}
		w.Header().Set("Content-Type", "application/octet-stream")
		http.ServeContent(w, r, "", time.Time{}, bytes.NewReader(d))
	default:
		w.WriteHeader(http.StatusAccepted)
	}
}

func newEnv(writers int, cacheMB int64) *env {
	e := &env{uploads: map[string][]byte{}, entries: map[string]*filer_pb.Entry{}, creates: map[string]int{}}
	e.vol = httptest.NewServer(http.HandlerFunc(e.serveVolume))
	e.volHost = strings.TrimPrefix(e.vol.URL, "http://")
	lis, err := net.Listen("tcp", "127.0.0.1:0")
	if err != nil {
		panic("INCONCLUSIVE listen: " + err.Error())
	}
	gs := grpc.NewServer(grpc.KeepaliveEnforcementPolicy(keepalive.EnforcementPolicy{MinTime: 5 * time.Second, PermitWithoutStream: true}))
	filer_pb.RegisterSeaweedFilerServer(gs, e)
	go gs.Serve(lis)
	mapper, _ := meta_cache.NewUidGidMapper("", "")
	e.opt = &filesys.Option{
		MountDirectory:     "/mnt/verif",
		FilerAddresses:     []string{lis.Addr().String()},
		FilerGrpcAddresses: []string{lis.Addr().String()},
		GrpcDialOption:     grpc.WithInsecure(),
		FilerMountRootPath: "/",
		ChunkSizeLimit:     16,
		ConcurrentWriters:  writers,
		CacheDir:           vlib.TempDir(),
		CacheSizeMB:        cacheMB,
		MountMode:          os.ModeDir | 0755,
		MountCtime:         time.Unix(1600000000, 0),
		MountMtime:         time.Unix(1600000000, 0),
		UidGidMapper:       mapper,
	}
	e.wfs = filesys.NewSeaweedFileSystem(e.opt)
	return e
}

var (
	envOnce [2]sync.Once
	envs    [2]*env
)

// getEnv: 0 = plain goroutine writers, no chunk cache; 1 = limited concurrent writers + chunk cache
func getEnv(i int) *env {
	envOnce[i].Do(func() {
		if i == 0 {
			envs[i] = newEnv(0, 0)
		} else {
			envs[i] = newEnv(4, 1)
		}
	})
	return envs[i]
}

func (e *env) newName() string {
	return fmt.Sprintf("f%d", atomic.AddInt64(&e.nameSeq, 1))
}

// forget drops the uploads of a finished case (keeps memory flat)
func (e *env) forget(chunks []*filer_pb.FileChunk) {
	e.mu.Lock()
	defer e.mu.Unlock()
	for _, c := range chunks {
		delete(e.uploads, c.GetFileIdString())
	}
}
