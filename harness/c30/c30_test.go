// C30 Mount write buffering preserves POSIX byte semantics.
package c30

import (
	"bytes"
	"context"
	"fmt"
	"sort"
	"strings"
	"testing"

	"github.com/chrislusf/seaweedfs/weed/filesys"
	"github.com/chrislusf/seaweedfs/weed/pb/filer_pb"
	"github.com/seaweedfs/fuse"
	"pgregory.net/rapid"

	"verifharness/vlib"
)

func TestMain(m *testing.M) {
	vlib.Rule("C30: Tier 1 (structures): filesys.ContinuousDirtyPages and TempFileDirtyPages on a real WFS (chunk limit 8-64 B; saves go through the real saveDataAsChunk -> gRPC AssignVolume on a harness filer -> operation.Upload to an HTTP volume stub that keeps chunks in memory): rapid sequences of write(off 0..96, len 1..80, overlapping, out of order, larger than the limit) as FileHandle.Write performs them (file size = max), read windows (flushed chunks resolved with a reference overlay, then ReadDirtyDataAt), FlushData; plus every write sequence of length <=3 over a 6-byte space and of length <=4 over a 4-byte space (quick: a sixth of the length-3 ones, length <=3 over 4 bytes), with a flush at every position and a whole-file read after every step. Tier 2: the real Dir.Create / FileHandle.Write / Read / Flush / File.Setattr(size) with both buffers: rapid sequences incl. truncation. Oracle: POSIX model (byte array + size): each read window equals the model; after a flush the entry's chunk list (Tier 2: the entry the filer received) resolved by a reference overlay (newest mtime wins, holes zero) equals the model, and no chunk reaches beyond the file size. Non-trivial = >=2 overlapping writes with a flush or an over-limit write between them (Tier 2 also: a truncation below written data). Distinct = distinct op list.")
	vlib.Assume("C30: single-threaded use of one handle (the FUSE layer serialises through fh.Lock); writes have length >= 1 (the kernel never sends empty writes); uploads succeed; reads are checked after in-flight chunk uploads of the in-memory buffer have completed (the window in which an uploading page is in neither the buffer nor the chunk list is reported separately); chunk mtimes come from the wall clock (two saves in the same nanosecond would be ambiguous: such bytes are accepted either way)")
	vlib.Main(m)
}

// ----------------------------------------------------------------- reference overlay

type resolved struct {
	data      []byte
	amb       []bool // byte decided by an mtime tie between different contents
	maxExtent int64
	err       string
}

func (e *env) resolve(chunks []*filer_pb.FileChunk, size int64) resolved {
	r := resolved{}
	for _, c := range chunks {
		if end := c.Offset + int64(c.Size); end > r.maxExtent {
			r.maxExtent = end
		}
	}
	n := size
	if r.maxExtent > n {
		n = r.maxExtent
	}
	r.data = make([]byte, n)
	r.amb = make([]bool, n)
	idx := make([]int, len(chunks))
	for i := range idx {
		idx[i] = i
	}
	sort.SliceStable(idx, func(a, b int) bool { return chunks[idx[a]].Mtime < chunks[idx[b]].Mtime })
	lastM := make([]int64, n)
	painted := make([]bool, n)
	for _, i := range idx {
		c := chunks[i]
		d, ok := e.upload(c.GetFileIdString())
		if !ok {
			r.err = fmt.Sprintf("chunk %s was never uploaded", c.GetFileIdString())
			return r
		}
		if int64(len(d)) < int64(c.Size) {
			r.err = fmt.Sprintf("chunk %s [%d,%d) claims %d bytes but %d were uploaded", c.GetFileIdString(), c.Offset, c.Offset+int64(c.Size), c.Size, len(d))
			return r
		}
		if c.Offset < 0 {
			r.err = fmt.Sprintf("chunk %s has negative offset %d", c.GetFileIdString(), c.Offset)
			return r
		}
		for j := int64(0); j < int64(c.Size); j++ {
			p := c.Offset + j
			if painted[p] && lastM[p] == c.Mtime && r.data[p] != d[j] {
				r.amb[p] = true
			} else if !painted[p] || lastM[p] != c.Mtime {
				r.amb[p] = false
			}
			r.data[p] = d[j]
			painted[p] = true
			lastM[p] = c.Mtime
		}
	}
	return r
}

func chunksStr(chunks []*filer_pb.FileChunk) string {
	var s []string
	for _, c := range chunks {
		s = append(s, fmt.Sprintf("[%d,%d)@%d", c.Offset, c.Offset+int64(c.Size), c.Mtime%1000000000))
	}
	return strings.Join(s, " ")
}

func diffAt(got, want []byte) string {
	n := len(got)
	if len(want) < n {
		n = len(want)
	}
	for i := 0; i < n; i++ {
		if got[i] != want[i] {
			return fmt.Sprintf("first difference at +%d: got %d want %d; got %v want %v", i, got[i], want[i], got, want)
		}
	}
	return fmt.Sprintf("lengths differ: got %d want %d; got %v want %v", len(got), len(want), got, want)
}

// ----------------------------------------------------------------- subjects

type subject interface {
	write(off int64, data []byte) string
	read(off int64, n int) ([]byte, string) // what a POSIX read of n bytes at off returns
	flush(modelSize int64, model []byte) string
	truncate(size int64) string
	reopen() string
	done()
}

func newEntry(name string) *filer_pb.Entry {
	return &filer_pb.Entry{Name: name, Attributes: &filer_pb.FuseAttributes{Mtime: 1600000000, Crtime: 1600000000, FileMode: 0644, Uid: 1000, Gid: 1000}}
}

// ---- Tier 1: the dirty page buffer driven the way FileHandle.Write / Read / doFlush drive it

type pagesSubject struct {
	e     *env
	file  *filesys.File
	pages filesys.DirtyPages
}

func newPagesSubject(e *env, kind string) *pagesSubject {
	f := filesys.VerifNewFileWithEntry(e.wfs, e.newName(), newEntry("x"))
	f.VerifEntry().Name = f.Name
	s := &pagesSubject{e: e, file: f}
	if kind == "mem" {
		s.pages = filesys.VerifNewContinuousDirtyPages(f)
	} else {
		s.pages = filesys.VerifNewTempFileDirtyPages(f)
	}
	return s
}

func (s *pagesSubject) write(off int64, data []byte) string {
	en := s.file.VerifEntry()
	if end := uint64(off) + uint64(len(data)); end > en.Attributes.FileSize {
		en.Attributes.FileSize = end
	}
	s.pages.AddPage(off, append([]byte(nil), data...))
	return ""
}

func (s *pagesSubject) read(off int64, n int) ([]byte, string) {
	filesys.VerifWaitWrites(s.pages)
	en := s.file.VerifEntry()
	size := int64(en.Attributes.FileSize)
	r := s.e.resolve(en.Chunks, size)
	if r.err != "" {
		return nil, r.err
	}
	if r.maxExtent > size {
		return nil, fmt.Sprintf("chunks reach to %d beyond the file size %d: %s", r.maxExtent, size, chunksStr(en.Chunks))
	}
	buf := make([]byte, n)
	if off < int64(len(r.data)) {
		copy(buf, r.data[off:])
	}
	untouched := append([]byte(nil), buf...)
	maxStop := s.pages.ReadDirtyDataAt(buf, off)
	if maxStop > off+int64(n) {
		return nil, fmt.Sprintf("ReadDirtyDataAt(len %d, off %d) reports stop %d beyond the window", n, off, maxStop)
	}
	if maxStop > size {
		return nil, fmt.Sprintf("ReadDirtyDataAt(len %d, off %d) reports dirty data up to %d beyond the file size %d", n, off, maxStop, size)
	}
	// nothing after maxStop may have been modified
	from := maxStop - off
	if from < 0 {
		from = 0
	}
	if !bytes.Equal(buf[from:], untouched[from:]) {
		return nil, fmt.Sprintf("ReadDirtyDataAt(len %d, off %d) = %d modified bytes after the reported stop", n, off, maxStop)
	}
	k := size - off
	if k < 0 {
		k = 0
	}
	if k > int64(n) {
		k = int64(n)
	}
	out := buf[:k]
	// bytes decided by an mtime tie and not covered by dirty data are unknowable; none expected in practice
	return out, ""
}

func (s *pagesSubject) flush(modelSize int64, model []byte) string {
	if err := s.pages.FlushData(); err != nil {
		return "FlushData: " + err.Error()
	}
	en := s.file.VerifEntry()
	probe := make([]byte, modelSize+8)
	if stop := s.pages.ReadDirtyDataAt(probe, 0); stop != 0 {
		return fmt.Sprintf("after FlushData the buffer still reports dirty data up to %d", stop)
	}
	return s.e.checkStored(en, modelSize, model)
}

func (s *pagesSubject) truncate(size int64) string { return "unsupported" }
func (s *pagesSubject) reopen() string             { return "" }

func (s *pagesSubject) done() {
	s.pages.FlushData()
	s.e.forget(s.file.VerifEntry().Chunks)
}

// checkStored: the entry's chunks resolve to the model and stay within the file size
func (e *env) checkStored(en *filer_pb.Entry, modelSize int64, model []byte) string {
	r := e.resolve(en.Chunks, int64(en.Attributes.FileSize))
	if r.err != "" {
		return r.err
	}
	size := int64(en.Attributes.FileSize)
	if r.maxExtent > size {
		size = r.maxExtent
	}
	if size != modelSize {
		return fmt.Sprintf("stored file size is %d (attribute %d, chunks reach %d), model size %d; chunks: %s", size, en.Attributes.FileSize, r.maxExtent, modelSize, chunksStr(en.Chunks))
	}
	for i := int64(0); i < modelSize; i++ {
		if r.data[i] != model[i] && !r.amb[i] {
			return fmt.Sprintf("stored chunks resolve to different bytes: %s; chunks: %s", diffAt(r.data[:modelSize], model[:modelSize]), chunksStr(en.Chunks))
		}
	}
	return ""
}

func fileSizeOf(en *filer_pb.Entry) uint64 {
	sz := en.Attributes.FileSize
	for _, c := range en.Chunks {
		if end := uint64(c.Offset) + c.Size; end > sz {
			sz = end
		}
	}
	return sz
}

// ---- Tier 2: the real file handle

type fhSubject struct {
	e       *env
	file    *filesys.File
	fh      *filesys.FileHandle
	path    string
	kind    string
	raw     bool // finding probes: no exclusions
	noWait  bool // finding probe: read while a chunk upload is in flight
	prefill byte
	// end of the highest write since the last flush (an upper bound of the dirty extent)
	dirtyEnd int64
}

func newFhSubject(e *env, kind string) (*fhSubject, string) {
	root, _ := e.wfs.Root()
	name := e.newName()
	node, handle, err := root.(*filesys.Dir).Create(context.Background(), &fuse.CreateRequest{Name: name, Flags: fuse.OpenReadWrite, Mode: 0644}, &fuse.CreateResponse{})
	if err != nil {
		return nil, "Create: " + err.Error()
	}
	s := &fhSubject{e: e, file: node.(*filesys.File), fh: handle.(*filesys.FileHandle), path: "/" + name, kind: kind}
	if kind == "mem" {
		s.fh.VerifUseContinuousDirtyPages()
	}
	if !vlib.Known("C17-readat-holes-not-zeroed") {
		s.prefill = 0xAA // the read buffer of a FUSE request is recycled memory
	}
	return s, ""
}

func (s *fhSubject) write(off int64, data []byte) string {
	resp := &fuse.WriteResponse{}
	if err := s.fh.Write(context.Background(), &fuse.WriteRequest{Offset: off, Data: append([]byte(nil), data...)}, resp); err != nil {
		return "Write: " + err.Error()
	}
	if resp.Size != len(data) {
		return fmt.Sprintf("Write of %d bytes reports %d written", len(data), resp.Size)
	}
	if end := off + int64(len(data)); end > s.dirtyEnd {
		s.dirtyEnd = end
	}
	return ""
}

func (s *fhSubject) read(off int64, n int) ([]byte, string) {
	if !s.raw || !s.noWait {
		// see keyInFlight: without this wait the outcome would depend on goroutine timing
		filesys.VerifWaitWrites(s.fh.VerifDirtyPages())
	}
	b := make([]byte, n)
	for i := range b {
		b[i] = s.prefill
	}
	resp := &fuse.ReadResponse{Data: b[:0]}
	if err := s.fh.Read(context.Background(), &fuse.ReadRequest{Offset: off, Size: n}, resp); err != nil {
		return nil, "Read: " + err.Error()
	}
	return resp.Data, ""
}

func (s *fhSubject) flush(modelSize int64, model []byte) string {
	_, before := s.e.storedEntry(s.path)
	if err := s.fh.Flush(context.Background(), &fuse.FlushRequest{}); err != nil {
		return "Flush: " + err.Error()
	}
	s.dirtyEnd = 0
	en, after := s.e.storedEntry(s.path)
	if en == nil || after == before {
		// nothing was dirty: the filer keeps what it had
		if en == nil {
			if modelSize == 0 {
				return ""
			}
			return "Flush did not send the entry to the filer"
		}
	}
	return s.e.checkStored(en, modelSize, model)
}

// keyStaleView: FileHandle caches entryViewCache / reader (with the file size) at the
// first read and drops them only on Release; chunks added by a later flush, a
// truncation or a size change are invisible to later reads on the same handle.
const keyStaleView = "C30-read-view-not-invalidated"

// keyTruncDrops: File.Setattr(size) keeps only the chunks that straddle the new size
// and drops every chunk that lies entirely below it.
const keyTruncDrops = "C30-truncate-drops-chunks-below-new-size"

// keyTruncDirty: File.Setattr(size) leaves dirty pages beyond the new size in the
// buffer; they are read back and uploaded by the next flush.
const keyTruncDirty = "C30-truncate-keeps-dirty-pages"

func (s *fhSubject) truncate(size int64) string {
	if !s.raw && vlib.Known(keyTruncDirty) && size < s.dirtyEnd {
		vlib.Excluded(keyTruncDirty)
		return "skip"
	}
	if !s.raw && vlib.Known(keyTruncDrops) {
		en := s.file.VerifEntry()
		if en != nil && uint64(size) < fileSizeOf(en) {
			for _, c := range en.Chunks {
				if c.Offset+int64(c.Size) <= size {
					vlib.Excluded(keyTruncDrops)
					return "skip"
				}
			}
		}
	}
	if err := s.file.Setattr(context.Background(), &fuse.SetattrRequest{Valid: fuse.SetattrSize, Size: uint64(size)}, &fuse.SetattrResponse{}); err != nil {
		return "Setattr: " + err.Error()
	}
	return ""
}

// reopen: Release (the flush has just been done) and Open again: a new handle whose
// entry comes from the mount's meta cache.
func (s *fhSubject) reopen() string {
	if err := s.fh.Release(context.Background(), &fuse.ReleaseRequest{}); err != nil {
		return "Release: " + err.Error()
	}
	h, err := s.file.Open(context.Background(), &fuse.OpenRequest{Flags: fuse.OpenReadWrite}, &fuse.OpenResponse{})
	if err != nil {
		return "Open: " + err.Error()
	}
	s.fh = h.(*filesys.FileHandle)
	if s.kind == "mem" {
		s.fh.VerifUseContinuousDirtyPages()
	}
	if s.file.VerifEntry() == nil {
		return "after re-open the file has no entry"
	}
	return ""
}

func (s *fhSubject) done() {
	s.fh.Flush(context.Background(), &fuse.FlushRequest{})
	if en := s.file.VerifEntry(); en != nil {
		s.e.forget(en.Chunks)
	}
	s.fh.Release(context.Background(), &fuse.ReleaseRequest{})
}

// ----------------------------------------------------------------- model and driver

type op struct {
	kind string // w r f t
	off  int64
	n    int
}

func (o op) String() string {
	switch o.kind {
	case "w":
		return fmt.Sprintf("w[%d,%d)", o.off, o.off+int64(o.n))
	case "r":
		return fmt.Sprintf("r[%d,%d)", o.off, o.off+int64(o.n))
	case "t":
		return fmt.Sprintf("trunc(%d)", o.off)
	case "o":
		return "flush+release+open"
	}
	return "flush"
}

func writeData(i int, n int) []byte {
	d := make([]byte, n)
	for j := range d {
		d[j] = byte(1 + (i*131+j*7+i*j)%255)
	}
	return d
}

type outcome struct {
	fail       string
	nontrivial bool
	classes    []string
}

// drive applies ops to the subject and to the POSIX model. fullReadAfterWrite adds a
// whole-file read after every mutation (used by the exhaustive enumerator).
//
// readFrom >= 0 is used while the stale-view finding is listed: reads before the
// readFrom-th read op are skipped, and once a read has built the handle's cached view,
// reads after a later write / flush / truncation are skipped until the file is
// re-opened (so the stale view is never observed, everything else still is).
func drive(s subject, ops []op, limit int, fullReadAfterEach bool, readFrom int) outcome {
	var model []byte
	readIdx, viewBuilt, changed := -1, false, false
	type wr struct {
		pos      int
		off, end int64
	}
	var writes []wr
	var saves []int // positions of flushes / over-limit writes
	truncBelow, reopened := false, false
	var hist []string
	fail := func(f string, a ...interface{}) outcome {
		return outcome{fail: fmt.Sprintf(f, a...) + "\nhistory: " + strings.Join(hist, " ")}
	}
	checkRead := func(off int64, n int) string {
		got, e := s.read(off, n)
		if e != "" {
			return e
		}
		var want []byte
		if off < int64(len(model)) {
			end := off + int64(n)
			if end > int64(len(model)) {
				end = int64(len(model))
			}
			want = model[off:end]
		}
		if !bytes.Equal(got, want) {
			return fmt.Sprintf("read [%d,%d) of a %d-byte file: %s", off, off+int64(n), len(model), diffAt(got, want))
		}
		return ""
	}
	nw := 0
	for pos, o := range ops {
		hist = append(hist, o.String())
		if o.kind == "o" {
			viewBuilt, changed = false, false
		} else if o.kind != "r" && viewBuilt {
			changed = true
		}
		switch o.kind {
		case "w":
			nw++
			d := writeData(nw, o.n)
			if e := s.write(o.off, d); e != "" {
				return fail("%s", e)
			}
			if end := o.off + int64(o.n); end > int64(len(model)) {
				model = append(model, make([]byte, end-int64(len(model)))...)
			}
			copy(model[o.off:], d)
			writes = append(writes, wr{pos, o.off, o.off + int64(o.n)})
			if o.n > limit {
				saves = append(saves, pos)
			}
		case "r":
			readIdx++
			if readFrom >= 0 {
				if readIdx < readFrom || (viewBuilt && changed) {
					hist[len(hist)-1] = "(skipped " + o.String() + ")"
					continue
				}
				viewBuilt = true
			}
			if e := checkRead(o.off, o.n); e != "" {
				return fail("%s", e)
			}
		case "f", "o":
			if e := s.flush(int64(len(model)), model); e != "" {
				return fail("after flush: %s", e)
			}
			saves = append(saves, pos)
			if o.kind == "o" {
				if e := s.reopen(); e != "" {
					return fail("%s", e)
				}
				reopened = true
			}
		case "t":
			if e := s.truncate(o.off); e == "skip" {
				hist[len(hist)-1] = "(skipped " + o.String() + ")"
				continue
			} else if e != "" {
				return fail("%s", e)
			}
			for _, w := range writes {
				if w.end > o.off {
					truncBelow = true
				}
			}
			if o.off < int64(len(model)) {
				model = model[:o.off]
			} else {
				model = append(model, make([]byte, o.off-int64(len(model)))...)
			}
		}
		if fullReadAfterEach && o.kind != "r" {
			if e := checkRead(0, len(model)+3); e != "" {
				return fail("%s", e)
			}
		}
	}
	out := outcome{}
	overlap := false
	for i := 0; i < len(writes); i++ {
		for j := i + 1; j < len(writes); j++ {
			if writes[i].off < writes[j].end && writes[j].off < writes[i].end {
				overlap = true
				for _, p := range saves {
					if p > writes[i].pos && p <= writes[j].pos {
						out.nontrivial = true
					}
				}
			}
		}
	}
	if truncBelow {
		out.nontrivial = true
		out.classes = append(out.classes, "truncate-below-written")
	}
	if overlap {
		out.classes = append(out.classes, "overlapping-writes")
	}
	if reopened {
		out.classes = append(out.classes, "reopened")
	}
	for _, w := range writes {
		if int(w.end-w.off) > limit {
			out.classes = append(out.classes, "over-limit-write")
			break
		}
	}
	return out
}

func opsStr(ops []op) string {
	var s []string
	for _, o := range ops {
		s = append(s, o.String())
	}
	return strings.Join(s, " ")
}

// ----------------------------------------------------------------- generators

func genOps(t *rapid.T, maxOff, maxLen int, withTruncate bool) []op {
	n := rapid.IntRange(2, 24).Draw(t, "nOps")
	kinds := []string{"w", "w", "w", "w", "r", "r", "f"}
	if withTruncate {
		kinds = append(kinds, "t", "t", "o")
	}
	var ops []op
	for i := 0; i < n; i++ {
		switch k := rapid.SampledFrom(kinds).Draw(t, "op"); k {
		case "w":
			ops = append(ops, op{kind: "w", off: int64(rapid.IntRange(0, maxOff).Draw(t, "off")), n: rapid.IntRange(1, maxLen).Draw(t, "len")})
		case "r":
			ops = append(ops, op{kind: "r", off: int64(rapid.IntRange(0, maxOff+14).Draw(t, "roff")), n: rapid.IntRange(1, maxLen+20).Draw(t, "rlen")})
		case "f", "o":
			ops = append(ops, op{kind: k})
		case "t":
			ops = append(ops, op{kind: "t", off: int64(rapid.IntRange(0, maxOff+20).Draw(t, "tsize"))})
		}
	}
	// always end with a flush and a full read
	ops = append(ops, op{kind: "f"}, op{kind: "r", off: 0, n: maxOff + maxLen + 30})
	return ops
}

func TestPropDirtyPages(t *testing.T) {
	vlib.Check(t, 1600, 16000, func(t *rapid.T) {
		kind := rapid.SampledFrom([]string{"mem", "tmp"}).Draw(t, "buffer")
		e := getEnv(rapid.IntRange(0, 1).Draw(t, "env"))
		limit := rapid.IntRange(8, 64).Draw(t, "chunkLimit")
		e.opt.ChunkSizeLimit = int64(limit)
		ops := genOps(t, 96, 80, false)
		s := newPagesSubject(e, kind)
		defer s.done()
		out := drive(s, ops, limit, false, -1)
		if out.fail != "" {
			t.Fatalf("buffer=%s limit=%d: %s", kind, limit, out.fail)
		}
		vlib.Case(fmt.Sprintf("tier1 %s limit=%d %s", kind, limit, opsStr(ops)), out.nontrivial, append([]string{"tier1-" + kind}, out.classes...)...)
	})
}

func TestPropFileHandle(t *testing.T) {
	vlib.Check(t, 1200, 16000, func(t *rapid.T) {
		kind := rapid.SampledFrom([]string{"mem", "tmp", "tmp"}).Draw(t, "buffer")
		e := getEnv(rapid.IntRange(0, 1).Draw(t, "env"))
		limit := rapid.IntRange(8, 64).Draw(t, "chunkLimit")
		e.opt.ChunkSizeLimit = int64(limit)
		ops := genOps(t, 96, 80, true)
		s, err := newFhSubject(e, kind)
		if err != "" {
			t.Fatalf("INCONCLUSIVE %s", err)
		}
		defer s.done()
		readFrom := -1
		if vlib.Known(keyStaleView) {
			nReads := 0
			for _, o := range ops {
				if o.kind == "r" {
					nReads++
				}
			}
			readFrom = rapid.IntRange(0, nReads-1).Draw(t, "readFrom")
			vlib.Excluded(keyStaleView)
		}
		out := drive(s, ops, limit, false, readFrom)
		if out.fail != "" {
			t.Fatalf("file handle, buffer=%s limit=%d: %s", kind, limit, out.fail)
		}
		vlib.Case(fmt.Sprintf("tier2 %s limit=%d %s", kind, limit, opsStr(ops)), out.nontrivial, append([]string{"tier2-" + kind}, out.classes...)...)
	})
}

// ----------------------------------------------------------------- bounded-exhaustive write sequences

func intervals(space int) []op {
	var out []op
	for off := 0; off < space; off++ {
		for n := 1; off+n <= space; n++ {
			out = append(out, op{kind: "w", off: int64(off), n: n})
		}
	}
	return out
}

// enumerate runs every write sequence of length <= maxLen over [0,space) with a flush
// inserted at every position, on both buffers. Of the sequences of the maximal length only
// every sample-th is run (1 = all).
func enumerate(t *testing.T, space, limit, maxLen, sample int) {
	iv := intervals(space)
	e := getEnv(0)
	e.opt.ChunkSizeLimit = int64(limit)
	idx := 0
	run := func(seq []op) {
		for fpos := 0; fpos < len(seq); fpos++ { // 0 = no flush before the end
			for _, kind := range []string{"mem", "tmp"} {
				idx++
				if !vlib.ShardOwns(idx) {
					continue
				}
				if len(seq) == maxLen && sample > 1 && (idx/vlib.Shards())%sample != 0 {
					continue
				}
				var ops []op
				for i, w := range seq {
					if fpos > 0 && i == fpos {
						ops = append(ops, op{kind: "f"})
					}
					ops = append(ops, w)
				}
				ops = append(ops, op{kind: "f"})
				s := newPagesSubject(e, kind)
				out := drive(s, ops, limit, true, -1)
				s.done()
				if out.fail != "" {
					t.Fatalf("buffer=%s limit=%d: %s", kind, limit, out.fail)
				}
				vlib.Case(fmt.Sprintf("exh %s limit=%d %s", kind, limit, opsStr(ops)), out.nontrivial, append([]string{"exhaustive-" + kind}, out.classes...)...)
			}
		}
	}
	var rec func(prefix []op)
	rec = func(prefix []op) {
		if len(prefix) > 0 {
			run(prefix)
		}
		if len(prefix) == maxLen {
			return
		}
		for _, w := range iv {
			rec(append(append([]op(nil), prefix...), w))
		}
	}
	rec(nil)
	vlib.Exhaustive(fmt.Sprintf("write-sequences-len<=%d-over-%d-bytes-limit-%d", maxLen, space, limit), sample == 1)
}

func TestPropWriteSequencesExhaustive(t *testing.T) {
	if vlib.Thorough() {
		enumerate(t, 6, 3, 3, 1) // 21 intervals: 9261+441+21 sequences x flush positions x 2 buffers
		enumerate(t, 4, 2, 4, 1) // 10 intervals: 11110 sequences
	} else {
		enumerate(t, 6, 3, 3, 6)
		enumerate(t, 4, 2, 3, 1)
		vlib.Note("quick tier: all write sequences of length <=2 and one sixth of length 3 over 6 bytes, all of length <=3 over 4 bytes; thorough covers length 3 over 6 bytes and length 4 over 4 bytes completely")
	}
}

// ----------------------------------------------------------------- finding probes

func probe(t *testing.T, key, kind string, limit int, ops []op, what string) {
	e := getEnv(0)
	e.opt.ChunkSizeLimit = int64(limit)
	s, err := newFhSubject(e, kind)
	if err != "" {
		t.Fatalf("INCONCLUSIVE %s", err)
	}
	s.raw = true
	out := drive(s, ops, limit, false, -1)
	s.done()
	detail := what + ": " + opsStr(ops) + " -> as the POSIX model"
	if out.fail != "" {
		detail = what + ": " + strings.Split(out.fail, "\nhistory")[0] + " | ops: " + opsStr(ops)
	}
	vlib.Finding(t, key, out.fail != "", detail)
}

func TestFindingTruncateDropsChunks(t *testing.T) {
	probe(t, keyTruncDrops, "tmp", 16, []op{{kind: "w", off: 0, n: 4}, {kind: "f"}, {kind: "w", off: 8, n: 4}, {kind: "f"}, {kind: "t", off: 10}, {kind: "f"}},
		"FileHandle, chunks [0,4) and [8,12) flushed, Setattr(size=10), flush")
}

func TestFindingStaleReadView(t *testing.T) {
	probe(t, keyStaleView, "tmp", 16, []op{{kind: "w", off: 0, n: 4}, {kind: "f"}, {kind: "r", off: 0, n: 4}, {kind: "w", off: 0, n: 4}, {kind: "f"}, {kind: "r", off: 0, n: 4}},
		"FileHandle, write, flush, read, overwrite, flush, read on one handle")
}

func TestFindingTruncateKeepsDirtyPages(t *testing.T) {
	probe(t, keyTruncDirty, "tmp", 16, []op{{kind: "w", off: 0, n: 10}, {kind: "t", off: 4}, {kind: "f"}},
		"FileHandle, write [0,10) (dirty), Setattr(size=4), flush")
}

// keyInFlight: ContinuousDirtyPages removes a page from the buffer when it starts the
// asynchronous upload and adds the chunk to the entry when the upload is done; in
// between the bytes are in neither place. (newFileHandle does not use this buffer.)
const keyInFlight = "C30-continuous-page-invisible-while-uploading"

func TestFindingInFlightPageInvisible(t *testing.T) {
	e := getEnv(0)
	e.opt.ChunkSizeLimit = 8
	s, err := newFhSubject(e, "mem")
	if err != "" {
		t.Fatalf("INCONCLUSIVE %s", err)
	}
	s.raw, s.noWait = true, true
	gate := make(chan struct{})
	e.mu.Lock()
	e.gate = gate
	e.mu.Unlock()
	data := writeData(1, 8)
	s.write(0, data) // buffer reaches the chunk limit: the page is handed to an uploader goroutine
	got, rerr := s.read(0, 8)
	e.mu.Lock()
	e.gate = nil
	e.mu.Unlock()
	close(gate)
	filesys.VerifWaitWrites(s.fh.VerifDirtyPages())
	after, _ := s.read(0, 8)
	s.done()
	vlib.Finding(t, keyInFlight, rerr == "" && !bytes.Equal(got, data),
		fmt.Sprintf("in-memory buffer, chunk limit 8: Write [0,8) returns, Read [0,8) while the chunk upload is still in flight returns %v, want %v (after the upload finished: %v)", got, data, after))
}
