// C22 Metadata change subscribers see every change once, in order.
//
// A subscriber that starts from any timestamp receives every namespace change
// with a later timestamp exactly once and in strictly increasing timestamp
// order, whether the changes are served from in-memory buffers or from
// already-flushed log data, for any interleaving of appends, buffer rotations,
// flushes and concurrent reads; the buffer has no data races.
package c22

import (
	"bytes"
	"fmt"
	"runtime"
	"runtime/debug"
	"strings"
	"sync"
	"sync/atomic"
	"testing"
	"time"

	"github.com/chrislusf/seaweedfs/weed/pb/filer_pb"
	"github.com/chrislusf/seaweedfs/weed/util"
	"github.com/chrislusf/seaweedfs/weed/util/log_buffer"
	"github.com/golang/protobuf/proto"
	"pgregory.net/rapid"

	"verifharness/vlib"
)

const (
	keyAlias = "C22-sealed-buffer-aliases-current"
	keyGap   = "C22-evicted-before-flush-gap"
	keyRace  = "C22-lastflushtime-race"
	keyStop  = "C22-isstopping-race"

	t0       = int64(1600000000) * 1000000000 // base timestamp of every case (ns)
	interval = time.Hour                      // flush interval: the timer never fires during a case
)

func TestMain(m *testing.M) {
	vlib.Rule("C22: one LogBuffer per case (flush interval 1 h so only the harness causes rotations; flushFn blocks on a harness gate and captures the flushed bytes as the 'disk'). A rapid-generated schedule of steps runs on one goroutine: Append(timestamp gap in {+1ns, same, -5ns (clamped), small, exactly the interval, > interval (forces rotation)}, payload 10 B..1 MiB and occasionally > 4 MiB), ReleaseOneFlush (let the oldest queued flush complete and become visible), StartReader(start = before all / exactly an event's timestamp / 1 ns before or after one / in the future), ReaderStep. A reader mirrors SubscribeLocalMetadata: read 'disk' (released flushes, ts > last) then LoopProcessLogData until it would wait or is told to resume from disk. After every delivery the reader's sequence must be a prefix of 'all appended events with ts > start, in order' (so duplicates, reordering, gaps and torn payloads are detected at once); at quiescence (all flushes released, readers stepped to a fixpoint) it must be the complete list, and the concatenated flushes must be exactly the appended events. Flushes may lag arbitrarily far behind the writer (their buffer evicted from the sealed buffers and its array reused, class flush-completes-after-its-buffer-was-recycled); what a flush hands to flushFn is parsed when the harness lets it complete. Non-trivial = at some reader step >= 2 rotations had happened, a flush was still pending and that reader was positioned before the end of a rotated-out buffer. Distinct = distinct written-out schedule. TestRace (thorough, -race): appender, flusher and 3 readers as real goroutines.")
	vlib.Assume("C22: 'disk' is the captured flush stream read back in order with the ts > last filter (the persisted-log reader ReadPersistedLogBuffer itself is not exercised). The effective timestamp of an event is the one the buffer assigns (clamped to last+1). The rotation model of the harness (used only to classify cases and to steer around listed findings) is cross-checked against the observed flushes; a disagreement is reported as INCONCLUSIVE. Timer-driven flushes (loopInterval) are not exercised.")
	// belt and braces next to dispose(): the collector works harder instead of letting a shard grow
	debug.SetMemoryLimit(1200 << 20)
	vlib.Main(m)
}

// ---------------------------------------------------------------- events

type event struct {
	id      int
	ts      int64 // effective (clamped) timestamp
	reqTs   int64 // requested timestamp
	size    int   // payload bytes
	encoded int   // bytes taken in the buffer (4 + marshalled LogEntry)
}

// payload(id,size) is a window of one fixed pseudo-random pattern; different
// ids start at different offsets, so payloads of different events differ.
var pattern = func() []byte {
	b := make([]byte, 6<<20+1<<17)
	x := uint32(2463534242)
	for i := range b {
		x ^= x << 13
		x ^= x >> 17
		x ^= x << 5
		b[i] = byte(x >> 11)
	}
	return b
}()

func payload(id, size int) []byte {
	off := (id * 131) % (1 << 17)
	return pattern[off : off+size : off+size]
}

var partitionKeys = [][]byte{[]byte("/dir0"), []byte("/dir1"), []byte("/dir2")}
var partitionHash = []int32{util.HashToInt32(partitionKeys[0]), util.HashToInt32(partitionKeys[1]), util.HashToInt32(partitionKeys[2])}

func partitionKey(id int) []byte { return partitionKeys[id%3] }

func varintLen(x uint64) int {
	n := 1
	for x >= 0x80 {
		x >>= 7
		n++
	}
	return n
}

// encodedSize is the number of bytes the event takes in the buffer: 4 bytes of
// length plus the marshalled filer_pb.LogEntry (checked against proto.Marshal
// in TestPropEncodedSizeSelfCheck).
func encodedSize(ts int64, id, size int) int {
	n := 4
	if ts != 0 {
		n += 1 + varintLen(uint64(ts))
	}
	if h := partitionHash[id%3]; h != 0 {
		n += 1 + varintLen(uint64(int64(h)))
	}
	if size > 0 {
		n += 1 + varintLen(uint64(size)) + size
	}
	return n
}

func TestPropEncodedSizeSelfCheck(t *testing.T) {
	vlib.Shard0Only(t)
	for id := 0; id < 7; id++ {
		for _, size := range []int{0, 1, 10, 127, 128, 300, 65536, 1 << 20} {
			for _, ts := range []int64{t0, t0 + 3*int64(interval) + 17} {
				b, _ := proto.Marshal(&filer_pb.LogEntry{TsNs: ts, PartitionKeyHash: util.HashToInt32(partitionKey(id)), Data: payload(id, size)})
				if len(b)+4 != encodedSize(ts, id, size) {
					t.Fatalf("INCONCLUSIVE: harness size formula gives %d for (ts=%d,id=%d,size=%d), proto.Marshal %d", encodedSize(ts, id, size), ts, id, size, len(b)+4)
				}
			}
		}
	}
}

// ---------------------------------------------------------------- model of rotation

type mbuf struct {
	arr   int // identity of the backing array
	used  int
	first int // index of first event, -1 when empty
	last  int
	flush int // index into model.flushes, -1 when empty
}

type flushRec struct {
	first, last int // event indices
}

// model mirrors the rotation bookkeeping of LogBuffer/SealedBuffers. It is used
// to classify cases and to steer around listed findings, never as the oracle.
type model struct {
	aliasBug            bool        // SealBuffer hands back the array of the buffer that stays at index 0
	caps                map[int]int // array identity -> capacity
	nextArr             int
	curArr              int
	pos                 int
	curFirst            int
	sealed              [log_buffer.PreviousBufferCount]mbuf
	lastTs              int64
	flushes             []flushRec
	released            int // flushes[0:released] have completed
	rotBySize, rotByGap int
	evictedFlush        int // newest flush whose buffer has left the sealed buffers (its array is being reused), -1 = none
	lateFlushes         int // flushes that completed only after their buffer's array had been recycled
}

func newModel() *model {
	m := &model{curFirst: -1, evictedFlush: -1, caps: map[int]int{}, aliasBug: recycledArrayIsSealed0()}
	for i := range m.sealed {
		m.sealed[i] = mbuf{arr: m.newArr(log_buffer.BufferSize), first: -1, last: -1, flush: -1}
	}
	m.curArr = m.newArr(log_buffer.BufferSize)
	return m
}

func (m *model) newArr(c int) int {
	m.nextArr++
	m.caps[m.nextArr] = c
	return m.nextArr
}

func (m *model) curCap() int    { return m.caps[m.curArr] }
func (m *model) rotations() int { return len(m.flushes) }
func (m *model) pending() int   { return len(m.flushes) - m.released }

// clamp returns the timestamp the buffer will assign.
func (m *model) clamp(req int64) int64 {
	if m.lastTs >= req {
		return m.lastTs + 1
	}
	return req
}

// willRotate tells whether appending (ts,enc) seals the current buffer.
func (m *model) willRotate(events []event, ts int64, enc int) (rot bool, bySize bool) {
	if m.pos == 0 {
		return false, false
	}
	start := events[m.curFirst].ts
	byGap := time.Unix(0, start).Add(interval).Before(time.Unix(0, ts))
	bySize = m.curCap()-m.pos < enc
	return byGap || bySize, bySize && !byGap
}

func (m *model) append(events []event, e event) (rotated bool) {
	m.lastTs = e.ts
	rot, bySize := m.willRotate(events, e.ts, e.encoded)
	if rot {
		if bySize {
			m.rotBySize++
		} else {
			m.rotByGap++
		}
		m.flushes = append(m.flushes, flushRec{first: m.curFirst, last: e.id - 1})
		old0, old1 := m.sealed[0].arr, m.sealed[1].arr
		if m.sealed[0].flush >= 0 {
			m.evictedFlush = m.sealed[0].flush
		}
		copy(m.sealed[:], m.sealed[1:])
		m.sealed[len(m.sealed)-1] = mbuf{arr: m.curArr, used: m.pos, first: m.curFirst, last: e.id - 1, flush: len(m.flushes) - 1}
		if m.aliasBug {
			m.curArr = old1
		} else {
			m.curArr = old0
		}
		m.pos = 0
		rotated = true
	}
	if m.pos == 0 && m.curCap() < e.encoded {
		m.curArr = m.newArr(2*(e.encoded-4) + 4)
	}
	if m.pos == 0 {
		m.curFirst = e.id
	}
	m.pos += e.encoded
	return
}

// recycledArrayIsSealed0 observes (once per process) which array SealBuffer
// hands back as the new current buffer: the evicted one, or - the listed finding
// keyAlias - the one that stays readable as the oldest sealed buffer. Only the
// capacity bookkeeping of the model depends on it.
var (
	aliasOnce sync.Once
	aliasSeen bool
)

func recycledArrayIsSealed0() bool {
	aliasOnce.Do(func() {
		r := &rig{gate: make(chan struct{}, 1024), acks: make(chan int, 1024)}
		r.m = &model{curFirst: -1, evictedFlush: -1, caps: map[int]int{}}
		r.attach()
		defer r.dispose()
		for i := 0; i < 4; i++ { // e1, e2, e3 each seal the previous buffer: 3 rotations
			r.lb.AddToBuffer(partitionKey(i), payload(i, 10), t0+int64(i)*2*int64(interval))
		}
		done := make(chan struct{})
		go func() {
			defer close(done)
			b, err := r.lb.ReadFromBuffer(time.Unix(0, t0-1))
			if err != nil || b == nil {
				return
			}
			defer r.lb.ReleaseMemory(b)
			if es, _ := parseEntries(b.Bytes()); len(es) > 0 {
				aliasSeen = es[0].TsNs != t0 // the oldest sealed buffer no longer starts with e0
			}
		}()
		select {
		case <-done:
		case <-time.After(spinLimit):
			r.spun = true
		}
	})
	return aliasSeen
}

// ---------------------------------------------------------------- rig

type captured struct {
	start, stop int64
	entries     []*filer_pb.LogEntry
}

type rig struct {
	lb      *log_buffer.LogBuffer
	gate    chan struct{}
	acks    chan int
	mu      sync.Mutex
	disk    []captured // completed flushes in order
	events  []event
	m       *model
	readers []*reader
	trace   []string

	onNotify func()
	dead     int32 // set by dispose: flushFn stops capturing
	spun     bool  // a subscriber step never came back: it may hold the buffer's read lock for good
}

func parseEntries(buf []byte) ([]*filer_pb.LogEntry, error) {
	var out []*filer_pb.LogEntry
	for pos := 0; pos < len(buf); {
		if pos+4 > len(buf) {
			return out, fmt.Errorf("truncated size prefix at %d of %d", pos, len(buf))
		}
		size := int(util.BytesToUint32(buf[pos : pos+4]))
		if pos+4+size > len(buf) {
			return out, fmt.Errorf("entry at %d claims %d bytes, only %d left", pos, size, len(buf)-pos-4)
		}
		e := &filer_pb.LogEntry{}
		if err := proto.Unmarshal(buf[pos+4:pos+4+size], e); err != nil {
			return out, fmt.Errorf("entry at %d: %v", pos, err)
		}
		out = append(out, e)
		pos += 4 + size
	}
	return out, nil
}

func newRig() *rig {
	r := &rig{gate: make(chan struct{}, 1024), acks: make(chan int, 1024), m: newModel()}
	r.attach()
	return r
}

func (r *rig) attach() {
	r.lb = log_buffer.NewLogBuffer("c22", interval, func(start, stop time.Time, buf []byte) {
		<-r.gate
		if atomic.LoadInt32(&r.dead) != 0 {
			return // the case is over: capture nothing, keep nothing
		}
		entries, err := parseEntries(buf)
		c := captured{start.UnixNano(), stop.UnixNano(), entries}
		if err != nil {
			c.entries = append(c.entries, &filer_pb.LogEntry{TsNs: -1, Data: []byte(err.Error())})
		}
		r.mu.Lock()
		r.disk = append(r.disk, c)
		n := len(r.disk)
		r.mu.Unlock()
		r.acks <- n
	}, func() { r.notify() })
}

// notify is the buffer's notifyFn; the concurrent tests hang a wake-up on it.
func (r *rig) notify() {
	if r.onNotify != nil {
		r.onNotify()
	}
}

// dispose unblocks the flusher, stops the buffer and drops its 16 MiB.
//
// The buffer's interval goroutine sleeps for the whole flush interval (1 h) and
// keeps the LogBuffer - and through its flushFn/notifyFn closures this rig -
// reachable for that long. So everything a case has accumulated (captured flush
// entries with their payloads, events, history, readers) is cut loose from the
// rig here; otherwise a shard retains tens of MB per big-payload case.
func (r *rig) dispose() {
	atomic.StoreInt32(&r.dead, 1)
	for i := 0; i < 512; i++ {
		select {
		case r.gate <- struct{}{}:
		default:
		}
	}
	if r.spun {
		go func() { r.lb.Shutdown(); r.lb.VerifRelease() }() // would block behind the spinning reader
		return
	}
	if raceBuild && vlib.Known(keyStop) {
		// listed finding: Shutdown's write of isStopping races with loopInterval's
		// unlocked read; under the race detector the buffer is abandoned instead.
		vlib.Excluded(keyStop)
	} else {
		r.lb.Shutdown()
	}
	r.lb.VerifRelease()
	r.forget()
}

func (r *rig) forget() {
	r.mu.Lock()
	r.disk = nil
	r.mu.Unlock()
	r.events, r.readers, r.trace, r.m, r.onNotify = nil, nil, nil, nil, nil
}

func (r *rig) logf(format string, a ...interface{}) {
	r.trace = append(r.trace, fmt.Sprintf(format, a...))
}

func (r *rig) history() string { return strings.Join(r.trace, "\n") }

// appendEvent performs one AddToBuffer and updates the model.
func (r *rig) appendEvent(reqTs int64, size int) event {
	id := len(r.events)
	ts := r.m.clamp(reqTs)
	e := event{id: id, ts: ts, reqTs: reqTs, size: size, encoded: encodedSize(ts, id, size)}
	r.lb.AddToBuffer(partitionKey(id), payload(id, size), reqTs)
	r.events = append(r.events, e)
	r.m.append(r.events, e)
	return e
}

// releaseOne lets the oldest queued flush complete and waits until its
// completion is visible to readers (lastFlushTime is written by the flusher
// goroutine after flushFn returns, without synchronisation the harness could
// wait on: poll the only observable, ReadFromBuffer answering "resume from disk").
func (r *rig) releaseOne(t fataler) bool {
	if r.m.pending() == 0 {
		return false
	}
	f := r.m.flushes[r.m.released]
	r.gate <- struct{}{}
	select {
	case <-r.acks:
	case <-time.After(5 * time.Minute):
		// not a verdict about the buffer: the harness' rotation model expected a queued flush
		t.Fatalf("INCONCLUSIVE: harness rotation model expects queued flush #%d but flushFn was not called\n%s", r.m.released, r.history())
	}
	if r.m.evictedFlush >= r.m.released {
		r.m.lateFlushes++
	}
	r.m.released++
	r.awaitVisible(r.events[f.last].ts)
	return true
}

// pollUseless is set when a completed flush never showed as "resume from disk":
// the buffer under test then signals flush completion differently (or not at
// all) and polling again would only cost time. The reader oracle still decides.
var pollUseless bool

// awaitVisible waits until readers positioned before stop are told to resume
// from disk, i.e. until the completion of the flush ending at stop is visible.
func (r *rig) awaitVisible(stop int64) {
	if pollUseless {
		return
	}
	for i := 0; i < 150000; i++ {
		b, err := r.lb.ReadFromBuffer(time.Unix(0, stop-1))
		if b != nil {
			r.lb.ReleaseMemory(b)
		}
		if err == log_buffer.ResumeFromDiskError {
			return
		}
		if i < 1000 {
			runtime.Gosched()
		} else {
			time.Sleep(200 * time.Microsecond)
		}
	}
	pollUseless = true
	r.logf("  (a completed flush up to %s never made ReadFromBuffer answer ResumeFromDiskError; the harness stops waiting for that)", rel(stop))
	vlib.Note("C22: flush completion was not observable through ReadFromBuffer; schedules after a flush release were not fully harness-controlled")
}

type fataler interface {
	Fatalf(format string, args ...interface{})
}

// ---------------------------------------------------------------- readers

type reader struct {
	id        int
	start     int64
	last      time.Time
	memErr    error
	inMemWait bool
	next      int // index of the next expected event (after skipping ts <= start)
	delivered int
	fromDisk  int
	fromMem   int
	resumes   int
	failure   string
}

// deliver checks one delivered entry against the expected sequence.
func (rd *reader) deliver(r *rig, e *filer_pb.LogEntry, src string) error {
	for rd.next < len(r.events) && r.events[rd.next].ts <= rd.start {
		rd.next++
	}
	fail := func(s string) error {
		rd.failure = fmt.Sprintf("reader %d (start %s): %s", rd.id, rel(rd.start), s)
		return fmt.Errorf("%s", rd.failure)
	}
	if e.TsNs <= rd.start {
		return fail(fmt.Sprintf("received from %s an event with ts %s which is not later than its start", src, rel(e.TsNs)))
	}
	if rd.next >= len(r.events) {
		return fail(fmt.Sprintf("received from %s an event ts %s (%d payload bytes) although every appended event was already delivered: duplicate or invented", src, rel(e.TsNs), len(e.Data)))
	}
	want := r.events[rd.next]
	if e.TsNs != want.ts {
		kind := "a gap: events lost"
		if e.TsNs < want.ts {
			kind = "a duplicate or reordering"
		}
		return fail(fmt.Sprintf("delivery #%d from %s has ts %s, expected event e%d with ts %s (%s)", rd.delivered, src, rel(e.TsNs), want.id, rel(want.ts), kind))
	}
	if !bytes.Equal(e.Data, payload(want.id, want.size)) {
		return fail(fmt.Sprintf("delivery #%d from %s: event e%d ts %s has a torn payload (%d bytes, want %d)", rd.delivered, src, want.id, rel(want.ts), len(e.Data), want.size))
	}
	if e.PartitionKeyHash != util.HashToInt32(partitionKey(want.id)) {
		return fail(fmt.Sprintf("event e%d has partition hash %d", want.id, e.PartitionKeyHash))
	}
	rd.next++
	rd.delivered++
	return nil
}

func rel(ts int64) string {
	d := ts - t0
	if d < 0 {
		return fmt.Sprintf("T0-%d", -d)
	}
	return fmt.Sprintf("T0+%d", d)
}

// readDisk mirrors ReadPersistedLogBuffer over the captured flush stream.
func (rd *reader) readDisk(r *rig) (lastTsNs int64, err error) {
	startNs := rd.last.UnixNano()
	r.mu.Lock()
	disk := append([]captured{}, r.disk...)
	r.mu.Unlock()
	for _, c := range disk {
		if c.stop <= startNs {
			continue
		}
		for _, e := range c.entries {
			if e.TsNs <= startNs {
				continue
			}
			if err := rd.deliver(r, e, "disk"); err != nil {
				return lastTsNs, err
			}
			rd.fromDisk++
			lastTsNs = e.TsNs
		}
	}
	return lastTsNs, nil
}

// step runs the subscriber loop until it would block (wait for a notification
// or sleep before polling the disk again). Returns the number of deliveries.
func (rd *reader) step(r *rig, wait func() bool) (int, error) {
	before := rd.delivered
	for {
		if !rd.inMemWait {
			processed, err := rd.readDisk(r)
			if err != nil {
				return rd.delivered - before, err
			}
			if processed != 0 {
				rd.last = time.Unix(0, processed)
			} else if rd.memErr == log_buffer.ResumeFromDiskError {
				// real loop: sleep 1127ms, read the disk again
				if wait == nil || !wait() {
					return rd.delivered - before, nil
				}
				continue
			}
		}
		rd.inMemWait = false
		var cbErr error
		rd.last, rd.memErr = r.lb.LoopProcessLogData(fmt.Sprintf("r%d", rd.id), rd.last, func() bool {
			if wait == nil {
				return false
			}
			return wait()
		}, func(e *filer_pb.LogEntry) error {
			if err := rd.deliver(r, e, "memory"); err != nil {
				cbErr = err
				return err
			}
			rd.fromMem++
			return nil
		})
		if cbErr != nil {
			return rd.delivered - before, cbErr
		}
		if rd.memErr == log_buffer.ResumeFromDiskError {
			rd.resumes++
			continue
		}
		if rd.memErr != nil {
			rd.failure = fmt.Sprintf("reader %d (start %s): LoopProcessLogData at %s failed: %v (a buffer with a torn entry was handed to the reader)", rd.id, rel(rd.start), rel(rd.last.UnixNano()), rd.memErr)
			return rd.delivered - before, fmt.Errorf("%s", rd.failure)
		}
		rd.inMemWait = true
		return rd.delivered - before, nil
	}
}

// spinLimit bounds one subscriber step. A step copies at most a few MiB; the
// only way to exceed the limit is a loop that never ends inside ReadFromBuffer /
// LoopProcessLogData (e.g. an empty non-nil buffer handed out again and again),
// which is itself a violation: the subscriber never receives anything again.
const spinLimit = 90 * time.Second

// guardedStep is step(r,nil) with the spin watchdog.
func (rd *reader) guardedStep(r *rig) (n int, err error) {
	done := make(chan struct{})
	go func() {
		n, err = rd.step(r, nil)
		close(done)
	}()
	select {
	case <-done:
		return n, err
	case <-time.After(spinLimit):
		r.spun = true
		return 0, fmt.Errorf("reader %d (start %s) at %s: the subscriber step did not come back within %v (watchdog): ReadFromBuffer/LoopProcessLogData spins without delivering or waiting", rd.id, rel(rd.start), rel(rd.last.UnixNano()), spinLimit)
	}
}

// complete reports whether the reader has received everything it must.
func (rd *reader) missing(r *rig) string {
	for rd.next < len(r.events) && r.events[rd.next].ts <= rd.start {
		rd.next++
	}
	if rd.next < len(r.events) {
		e := r.events[rd.next]
		return fmt.Sprintf("reader %d (start %s) is quiescent at %s after %d deliveries but never received e%d (ts %s) and %d later events", rd.id, rel(rd.start), rel(rd.last.UnixNano()), rd.delivered, e.id, rel(e.ts), len(r.events)-rd.next-1)
	}
	return ""
}

// ---------------------------------------------------------------- end-of-case checks

// finish releases everything, brings the readers to a fixpoint, shuts the
// buffer down and checks completeness of readers and of the flush stream.
func (r *rig) finish(t fataler, shutdown bool) {
	for r.m.pending() > 0 {
		r.releaseOne(t)
	}
	r.logf("quiesce: all flushes released")
	for _, rd := range r.readers {
		for i := 0; ; i++ {
			n, err := rd.guardedStep(r)
			if err != nil {
				t.Fatalf("%v\nhistory:\n%s", err, r.history())
			}
			if n == 0 && rd.inMemWait {
				break
			}
			if n == 0 && i > 3 {
				t.Fatalf("reader %d (start %s) at %s is told to resume from disk again and again although every flush has completed and the disk holds nothing newer: it never gets back to the in-memory events\nhistory:\n%s", rd.id, rel(rd.start), rel(rd.last.UnixNano()), r.history())
			}
			if i > 10000 {
				t.Fatalf("reader %d does not reach a fixpoint\nhistory:\n%s", rd.id, r.history())
			}
		}
		if s := rd.missing(r); s != "" {
			t.Fatalf("%s\nhistory:\n%s", s, r.history())
		}
	}
	if !shutdown {
		return
	}
	expectFinal := r.m.pos > 0
	r.lb.Shutdown()
	if expectFinal {
		r.gate <- struct{}{}
		<-r.acks
	}
	// the flush stream is exactly the appended events, once, in order
	r.mu.Lock()
	disk := r.disk
	r.mu.Unlock()
	k := 0
	for fi, c := range disk {
		if len(c.entries) == 0 {
			t.Fatalf("flush #%d is empty\nhistory:\n%s", fi, r.history())
		}
		for _, e := range c.entries {
			if k >= len(r.events) || e.TsNs != r.events[k].ts || !bytes.Equal(e.Data, payload(k, r.events[k].size)) {
				t.Fatalf("flush #%d: entry ts %s (%d bytes) where event e%d was expected: the flushed log is not the appended sequence\nhistory:\n%s", fi, rel(e.TsNs), len(e.Data), k, r.history())
			}
			k++
		}
		if c.start != c.entries[0].TsNs || c.stop != c.entries[len(c.entries)-1].TsNs {
			t.Fatalf("flush #%d announced [%s,%s] but holds [%s,%s]\nhistory:\n%s", fi, rel(c.start), rel(c.stop), rel(c.entries[0].TsNs), rel(c.entries[len(c.entries)-1].TsNs), r.history())
		}
	}
	if k != len(r.events) {
		t.Fatalf("after Shutdown the flushed log holds %d of %d appended events\nhistory:\n%s", k, len(r.events), r.history())
	}
	// harness self-check: the rotation model agrees with what was flushed
	want := len(r.m.flushes)
	if expectFinal {
		want++
	}
	if len(disk) != want {
		t.Fatalf("INCONCLUSIVE: harness rotation model predicted %d flushes, observed %d\nhistory:\n%s", want, len(disk), r.history())
	}
	for i, f := range r.m.flushes {
		if disk[i].start != r.events[f.first].ts || disk[i].stop != r.events[f.last].ts {
			t.Fatalf("INCONCLUSIVE: harness rotation model predicted flush #%d = e%d..e%d, observed [%s,%s]\nhistory:\n%s", i, f.first, f.last, rel(disk[i].start), rel(disk[i].stop), r.history())
		}
	}
}

// steerAroundKnown is called before an append. For the listed finding keyAlias
// (after the rotation the oldest retained sealed buffer shares its array with
// the new current buffer) it releases queued flushes so that this buffer is
// never still unflushed.
func (r *rig) steerAroundKnown(t fataler, ts int64, enc int) {
	rot, _ := r.m.willRotate(r.events, ts, enc)
	if !rot || !vlib.Known(keyAlias) || r.m.sealed[1].flush < 0 {
		return
	}
	need := r.m.sealed[1].flush
	did := false
	for need >= r.m.released {
		r.releaseOne(t)
		did = true
	}
	if did {
		vlib.Excluded(keyAlias)
		r.logf("  (harness released flushes up to #%d before the next append: listed finding)", need)
	}
}

// steerReaderAroundGap is called before a reader step. Listed finding keyGap: a
// reader that asks the buffer for events after lastReadTime while a buffer
// holding such events has been evicted and its flush has not completed is served
// the next buffer from memory and skips the evicted events. Exactly that call is
// excluded: the lagging flushes are completed first when (and only when) the
// stepping reader is positioned before the end of an evicted, unflushed buffer.
// Flushes may otherwise lag arbitrarily far behind the writer.
func (r *rig) steerReaderAroundGap(t fataler, rd *reader) {
	if !vlib.Known(keyGap) || r.m.evictedFlush < r.m.released {
		return
	}
	need := r.m.evictedFlush
	if rd.last.UnixNano() >= r.events[r.m.flushes[need].last].ts {
		return
	}
	for need >= r.m.released {
		r.releaseOne(t)
	}
	vlib.Excluded(keyGap)
	r.logf("  (harness completed flushes up to #%d before this reader step: listed finding %s)", need, keyGap)
}

// ---------------------------------------------------------------- generated schedules

type caseStats struct {
	nontrivial                                                 bool
	clamped, exactStart, futureStart, huge, diskReads, resumes int
	evictUnflushed, aliasUnflushed                             int
}

func genGap(t *rapid.T) (int64, string) {
	switch rapid.IntRange(0, 11).Draw(t, "gapKind") {
	case 0, 1:
		return 1, "+1"
	case 2:
		return 0, "same"
	case 3:
		return -5, "-5"
	case 4, 5, 6:
		return int64(rapid.IntRange(2, 1000).Draw(t, "gapNs")), "small"
	case 7:
		return int64(interval), "interval"
	default:
		return int64(interval) + int64(rapid.IntRange(1, 1000).Draw(t, "gapOver")), ">interval"
	}
}

func genSize(t *rapid.T, big bool) int {
	k := rapid.IntRange(0, 19).Draw(t, "sizeKind")
	switch {
	case big && k < 6:
		return rapid.SampledFrom([]int{1 << 20, 1<<20 + 17, 900000, 1400000, 2 << 20}).Draw(t, "bigSize")
	case big && k == 8:
		return rapid.SampledFrom([]int{4<<20 - 64, 4 << 20, 4<<20 + 100, 5 << 20}).Draw(t, "hugeSize")
	case k < 12:
		return rapid.IntRange(10, 100).Draw(t, "size")
	case k < 18:
		return rapid.IntRange(100, 5000).Draw(t, "size")
	default:
		return rapid.SampledFrom([]int{0, 1, 65536, 200000}).Draw(t, "oddSize")
	}
}

func (r *rig) startReader(t *rapid.T, st *caseStats) {
	kind := rapid.IntRange(0, 5).Draw(t, "startKind")
	var start int64
	desc := ""
	n := len(r.events)
	switch {
	case kind == 0 || n == 0 && kind < 5:
		start = t0 - 1000
		desc = "before-all"
	case kind == 5:
		start = r.m.lastTs + int64(rapid.SampledFrom([]int64{1, 7, int64(interval) + 5}).Draw(t, "futureBy"))
		if n == 0 {
			start = t0 + 500
		}
		desc = "future"
		st.futureStart++
	default:
		i := rapid.IntRange(0, n-1).Draw(t, "startEvent")
		off := rapid.SampledFrom([]int64{0, 0, -1, 1}).Draw(t, "startOffset")
		start = r.events[i].ts + off
		desc = fmt.Sprintf("e%d%+d", i, off)
		if off == 0 {
			st.exactStart++
		}
	}
	rd := &reader{id: len(r.readers), start: start, last: time.Unix(0, start)}
	r.readers = append(r.readers, rd)
	r.logf("StartReader r%d at %s (%s)", rd.id, rel(start), desc)
}

func TestPropSchedule(t *testing.T) {
	vlib.Check(t, 1000, 24000, func(t *rapid.T) {
		r := newRig()
		var st caseStats
		defer r.dispose()
		big := rapid.IntRange(0, 7).Draw(t, "bigPayloads") == 0
		nSteps := rapid.IntRange(4, 70).Draw(t, "steps")
		ts := t0
		if rapid.Bool().Draw(t, "readerFirst") {
			r.startReader(t, &st)
		}
		for s := 0; s < nSteps; s++ {
			k := rapid.IntRange(0, 19).Draw(t, "step")
			switch {
			case k < 10: // append
				gap, gdesc := genGap(t)
				size := genSize(t, big)
				if len(r.events) > 0 {
					ts += gap
				}
				eff := r.m.clamp(ts)
				enc := encodedSize(eff, len(r.events), size)
				r.steerAroundKnown(t, eff, enc)
				rotBefore := r.m.rotations()
				evicted, alias := r.m.sealed[0], r.m.sealed[1]
				e := r.appendEvent(ts, size)
				if e.ts != ts {
					st.clamped++
				}
				if e.ts > ts {
					ts = e.ts
				}
				if size > 4<<20-100 {
					st.huge++
				}
				note := ""
				if r.m.rotations() > rotBefore {
					note = fmt.Sprintf(" -> rotation #%d (queued flush #%d, %d pending)", r.m.rotations(), r.m.rotations()-1, r.m.pending())
					if evicted.flush >= r.m.released {
						st.evictUnflushed++
						note += fmt.Sprintf(", evicts unflushed buffer of flush #%d", evicted.flush)
					}
					if alias.flush >= r.m.released {
						st.aliasUnflushed++
					}
				}
				r.logf("Append e%d gap %s ts %s%s, %d payload bytes%s", e.id, gdesc, rel(e.ts), map[bool]string{true: " (clamped)", false: ""}[e.ts != e.reqTs], size, note)
			case k < 12: // release one flush
				if r.releaseOne(t) {
					r.logf("ReleaseOneFlush -> flush #%d complete", r.m.released-1)
				}
			case k < 14 && len(r.readers) < 3:
				r.startReader(t, &st)
			default: // reader step
				if len(r.readers) == 0 {
					r.startReader(t, &st)
				}
				rd := r.readers[rapid.IntRange(0, len(r.readers)-1).Draw(t, "reader")]
				if r.m.rotations() >= 2 && r.m.pending() > 0 {
					lastSealed := r.m.sealed[len(r.m.sealed)-1]
					if lastSealed.last >= 0 && rd.last.UnixNano() < r.events[lastSealed.last].ts {
						st.nontrivial = true
					}
				}
				r.steerReaderAroundGap(t, rd)
				d0, m0 := rd.fromDisk, rd.fromMem
				n, err := rd.guardedStep(r)
				r.logf("ReaderStep r%d -> %d deliveries (%d disk, %d memory), now at %s, %s", rd.id, n, rd.fromDisk-d0, rd.fromMem-m0, rel(rd.last.UnixNano()),
					map[bool]string{true: "waiting for a notification", false: "waiting to re-read the disk"}[rd.inMemWait])
				if err != nil {
					t.Fatalf("%v\nhistory:\n%s", err, r.history())
				}
			}
		}
		r.finish(t, true)
		lateFlushes := r.m.lateFlushes
		for _, rd := range r.readers {
			st.diskReads += rd.fromDisk
			st.resumes += rd.resumes
		}
		cls := []string{"schedule", fmt.Sprintf("rotations-%s", bucket(r.m.rotations()))}
		add := func(c bool, s string) {
			if c {
				cls = append(cls, s)
			}
		}
		add(r.m.rotBySize > 0, "rotation-by-size")
		add(r.m.rotByGap > 0, "rotation-by-gap")
		add(st.clamped > 0, "clamped-timestamp")
		add(st.exactStart > 0, "reader-starts-at-exact-event-ts")
		add(st.futureStart > 0, "reader-starts-in-future")
		add(st.huge > 0, "entry-larger-than-buffer")
		add(st.diskReads > 0, "delivered-from-disk")
		add(st.resumes > 0, "resume-from-disk")
		add(st.evictUnflushed > 0, "evicted-unflushed-buffer")
		add(lateFlushes > 0, "flush-completes-after-its-buffer-was-recycled")
		add(st.aliasUnflushed > 0, "oldest-sealed-unflushed-after-rotation")
		vlib.Case(r.history(), st.nontrivial, cls...)
	})
}

func bucket(n int) string {
	switch {
	case n == 0:
		return "0"
	case n <= 2:
		return "1-2"
	case n <= 4:
		return "3-4"
	default:
		return "5+"
	}
}

// ---------------------------------------------------------------- finding probes

// collectAll runs one reader to a fixpoint without the prefix oracle and
// returns the timestamps it was given (probes want to see everything).
func collectAll(r *rig, start int64) (got []int64, err error) {
	done := make(chan struct{})
	go func() {
		got, err = collectAllUnguarded(r, start)
		close(done)
	}()
	select {
	case <-done:
		return got, err
	case <-time.After(spinLimit):
		r.spun = true
		return nil, fmt.Errorf("subscriber loop did not come back within %v (spins)", spinLimit)
	}
}

func collectAllUnguarded(r *rig, start int64) (got []int64, err error) {
	last := time.Unix(0, start)
	var memErr error
	each := func(e *filer_pb.LogEntry) error { got = append(got, e.TsNs); return nil }
	for i := 0; i < 1000; i++ {
		var processed int64
		r.mu.Lock()
		disk := append([]captured{}, r.disk...)
		r.mu.Unlock()
		for _, c := range disk {
			for _, e := range c.entries {
				if e.TsNs > last.UnixNano() {
					got = append(got, e.TsNs)
					processed = e.TsNs
				}
			}
		}
		if processed != 0 {
			last = time.Unix(0, processed)
		} else if memErr == log_buffer.ResumeFromDiskError {
			return got, nil
		}
		last, memErr = r.lb.LoopProcessLogData("probe", last, func() bool { return false }, each)
		if memErr == nil {
			return got, nil
		}
		if memErr != log_buffer.ResumeFromDiskError {
			return got, memErr
		}
	}
	return got, fmt.Errorf("no fixpoint")
}

func relList(ts []int64) string {
	var s []string
	for _, x := range ts {
		s = append(s, rel(x))
	}
	return "[" + strings.Join(s, " ") + "]"
}

// Three rotations while no flush has completed, then a reader from the start:
// the new current buffer shares its array with the oldest sealed buffer.
func TestFindingSealedBufferAliasesCurrent(t *testing.T) {
	r := newRig()
	defer r.dispose()
	h := int64(interval)
	for i := 0; i < 4; i++ {
		r.appendEvent(t0+int64(i)*2*h, 10)
	}
	got, err := collectAll(r, t0-1000)
	want := []int64{t0, t0 + 2*h, t0 + 4*h, t0 + 6*h}
	bad := err != nil || len(got) != len(want)
	for i := 0; !bad && i < len(want); i++ {
		bad = got[i] != want[i]
	}
	vlib.Finding(t, keyAlias, bad, fmt.Sprintf("append e0@T0, e1@T0+2h, e2@T0+4h, e3@T0+6h (interval 1h: 3 rotations, flushes not completed yet); a subscriber from T0-1000 receives %s err=%v, want %s: SealedBuffers.SealBuffer keeps a pointer to buffers[0], shifts the entries (overwriting that struct) and returns its .buf, so the array handed back as the new current buffer is the one that stays readable as the oldest sealed buffer; every later append overwrites sealed data that readers are still served from", relList(got), err, relList(want)))
}

// Four rotations while the first flush has not completed: its buffer is gone
// from memory, not yet on disk, and nothing tells the reader.
func TestFindingEvictedBeforeFlushGap(t *testing.T) {
	r := newRig()
	defer r.dispose()
	h := int64(interval)
	for i := 0; i < 5; i++ {
		r.appendEvent(t0+int64(i)*2*h, 10)
	}
	got, err := collectAll(r, t0-1000)
	for r.m.pending() > 0 {
		r.releaseOne(t)
	}
	more, err2 := collectAll(r, func() int64 {
		if len(got) > 0 {
			return got[len(got)-1]
		}
		return t0 - 1000
	}())
	got = append(got, more...)
	hasE0 := false
	for _, x := range got {
		if x == t0 {
			hasE0 = true
		}
	}
	vlib.Finding(t, keyGap, !hasE0, fmt.Sprintf("append e0..e4 two hours apart (interval 1h: 4 rotations) while flush #0 (e0) is still in flushFn; a subscriber from T0-1000 is served from memory and receives %s (err=%v/%v) even after all flushes completed: e0 was evicted from the 3 sealed buffers before lastFlushTime told readers to resume from disk, so it is skipped for good", relList(got), err, err2))
}

// The write of lastFlushTime in loopFlush happens outside the lock that
// ReadFromBuffer holds while reading it. Only the race detector can see that;
// this probe runs in the plain build and therefore cannot reproduce it.
func TestFindingLastFlushTimeRace(t *testing.T) {
	vlib.Finding(t, keyRace, false, "data race, visible only under -race (TestRaceFlushDuringReads with the listing removed): loopFlush writes m.lastFlushTime without the lock, ReadFromBuffer reads it under RLock; not decidable in the plain build")
	vlib.Finding(t, keyStop, false, "data race, visible only under -race: loopInterval reads m.isStopping without the lock, Shutdown writes it under the lock; not decidable in the plain build")
}

// ---------------------------------------------------------------- concurrent part (thorough, -race)

type planned struct {
	reqTs int64
	size  int
	gap   string
}

// conc is the shared state of one concurrent case.
type conc struct {
	mu       sync.Mutex
	cond     *sync.Cond
	version  int64
	finished bool
}

func (c *conc) bump() {
	c.mu.Lock()
	c.version++
	c.mu.Unlock()
	c.cond.Broadcast()
}

// waitFn returns the reader's wait function: block until something changed
// since the reader last looked; false = the run is over and nothing changed.
func (c *conc) waitFn(seen *int64) func() bool {
	return func() bool {
		c.mu.Lock()
		for c.version == *seen && !c.finished {
			c.cond.Wait()
		}
		changed := c.version != *seen
		*seen = c.version
		c.mu.Unlock()
		return changed
	}
}

func raceScenario(t *rapid.T, flushDuringReads bool) {
	r := newRig()
	c := &conc{}
	c.cond = sync.NewCond(&c.mu)
	r.onNotify = c.bump
	defer r.dispose()

	// ---- plan (all randomness drawn up front)
	maxRot := 8
	maxBig := 10
	if !flushDuringReads {
		// nothing is flushed while the readers run: stay within what memory retains
		// (3 sealed buffers; 4 MiB are never filled with at most 3 payloads of 1 MiB)
		maxRot = log_buffer.PreviousBufferCount
		maxBig = 3
		if vlib.Known(keyAlias) {
			vlib.Excluded(keyAlias)
			maxRot = log_buffer.PreviousBufferCount - 1
		}
	}
	n := rapid.IntRange(50, 400).Draw(t, "appends")
	plan := make([]planned, 0, n)
	ts := t0
	rot := 0
	bigLeft := rapid.IntRange(0, maxBig).Draw(t, "bigPayloads")
	for i := 0; i < n; i++ {
		gap, gdesc := int64(1), "+1"
		switch k := rapid.IntRange(0, 39).Draw(t, "gapKind"); {
		case k < 12:
		case k < 16:
			gap, gdesc = 0, "same"
		case k < 18:
			gap, gdesc = -5, "-5"
		case k < 38 || rot >= maxRot:
			gap, gdesc = int64(rapid.IntRange(2, 1000).Draw(t, "gapNs")), "small"
		default:
			gap, gdesc = int64(interval)+int64(rapid.IntRange(1, 1000).Draw(t, "gapOver")), ">interval"
			rot++
		}
		size := rapid.IntRange(10, 300).Draw(t, "size")
		if bigLeft > 0 && rapid.IntRange(0, 30).Draw(t, "big") == 0 {
			size = 1 << 20
			bigLeft--
		}
		if i > 0 {
			ts += gap
		}
		plan = append(plan, planned{ts, size, gdesc})
	}
	// effective timestamps and the complete expected event list, known before anything runs
	pm := newModel()
	for i, p := range plan {
		eff := pm.clamp(p.reqTs)
		e := event{id: i, ts: eff, reqTs: p.reqTs, size: p.size, encoded: encodedSize(eff, i, p.size)}
		r.events = append(r.events, e)
		pm.append(r.events, e)
	}
	if !flushDuringReads && pm.rotations() > maxRot {
		t.Fatalf("INCONCLUSIVE: harness planned %d rotations, limit %d", pm.rotations(), maxRot)
	}
	nReaders := 3
	for i := 0; i < nReaders; i++ {
		var start int64
		switch rapid.IntRange(0, 3).Draw(t, "startKind") {
		case 0:
			start = t0 - 1000
		case 3:
			start = r.events[rapid.IntRange(0, n-1).Draw(t, "startEvent")].ts + 1
		default:
			start = r.events[rapid.IntRange(0, n-1).Draw(t, "startEvent")].ts
		}
		r.readers = append(r.readers, &reader{id: i, start: start, last: time.Unix(0, start)})
	}
	var hist strings.Builder
	fmt.Fprintf(&hist, "concurrent case: flushDuringReads=%v, %d appends, %d rotations planned\n", flushDuringReads, n, pm.rotations())
	for _, rd := range r.readers {
		fmt.Fprintf(&hist, "  reader r%d starts at %s\n", rd.id, rel(rd.start))
	}
	for i, p := range plan {
		if p.gap == ">interval" || p.size >= 1<<20 || r.events[i].ts != p.reqTs || i == 0 || i == n-1 {
			fmt.Fprintf(&hist, "  e%d gap %s ts %s, %d bytes\n", i, p.gap, rel(r.events[i].ts), p.size)
		}
	}
	if raceBuild {
		// a race report does not pass through the oracle: have the history in the log beforehand
		fmt.Print("C22 race " + hist.String())
	}

	// ---- flusher: with flushDuringReads the gate is open from the start
	acked := 0
	if flushDuringReads {
		for i := 0; i < 900; i++ {
			r.gate <- struct{}{}
		}
	}
	var ackMu sync.Mutex
	ackCond := sync.NewCond(&ackMu)
	stopAcks := make(chan struct{})
	var ackWG sync.WaitGroup
	ackWG.Add(1)
	go func() {
		defer ackWG.Done()
		for {
			select {
			case <-r.acks:
				ackMu.Lock()
				acked++
				ackMu.Unlock()
				ackCond.Broadcast()
				c.bump()
			case <-stopAcks:
				return
			}
		}
	}()
	waitFlushed := func(k int) { // flushes 0..k complete and visible
		ackMu.Lock()
		for acked <= k {
			ackCond.Wait()
		}
		ackMu.Unlock()
		r.awaitVisible(r.events[r.m.flushes[k].last].ts)
	}

	// ---- readers
	var wg sync.WaitGroup
	for _, rd := range r.readers {
		wg.Add(1)
		go func(rd *reader) {
			defer wg.Done()
			c.mu.Lock()
			seen := c.version
			c.mu.Unlock()
			_, _ = rd.step(r, c.waitFn(&seen))
		}(rd)
	}

	// ---- appender (this goroutine)
	for i := range plan {
		e := r.events[i]
		if flushDuringReads {
			if rotates, _ := r.m.willRotate(r.events, e.ts, e.encoded); rotates {
				need := -1
				if vlib.Known(keyGap) && r.m.sealed[0].flush >= 0 {
					need = r.m.sealed[0].flush
				}
				if vlib.Known(keyAlias) && r.m.sealed[1].flush >= 0 {
					need = r.m.sealed[1].flush
				}
				if need >= 0 {
					waitFlushed(need)
				}
			}
		}
		r.lb.AddToBuffer(partitionKey(i), payload(i, e.size), e.reqTs)
		r.m.append(r.events, e)
		if i%7 == 0 {
			runtime.Gosched()
		}
	}
	if flushDuringReads && r.m.rotations() > 0 {
		waitFlushed(r.m.rotations() - 1)
	}
	c.mu.Lock()
	c.finished = true
	c.version++
	c.mu.Unlock()
	c.cond.Broadcast()
	joined := make(chan struct{})
	go func() { wg.Wait(); close(joined) }()
	select {
	case <-joined:
	case <-time.After(spinLimit):
		r.spun = true
		t.Fatalf("the readers did not come to rest within %v after the last append (watchdog): a subscriber spins or sleeps forever\nhistory:\n%s", spinLimit, hist.String())
	}

	// ---- verdict
	fail := ""
	for _, rd := range r.readers {
		fmt.Fprintf(&hist, "  reader r%d: %d deliveries (%d disk, %d memory, %d resumes), at %s\n", rd.id, rd.delivered, rd.fromDisk, rd.fromMem, rd.resumes, rel(rd.last.UnixNano()))
		if rd.failure != "" && fail == "" {
			fail = rd.failure
		}
	}
	if fail == "" && !flushDuringReads {
		// now let the flushes complete and bring every reader to the final fixpoint
		for i := 0; i < r.m.rotations(); i++ {
			r.gate <- struct{}{}
		}
	}
	close(stopAcks)
	ackWG.Wait()
	if fail == "" {
		for _, rd := range r.readers {
			if s := rd.missing(r); s != "" {
				fail = s
				break
			}
		}
	}
	if fail != "" {
		t.Fatalf("%s\nhistory:\n%s", fail, hist.String())
	}
	total := 0
	for _, rd := range r.readers {
		total += rd.delivered
	}
	vlib.Case(hist.String(), r.m.rotations() >= 2 && total > 0, map[bool]string{true: "race-flush-during-reads", false: "race-appends-during-reads"}[flushDuringReads], fmt.Sprintf("rotations-%s", bucket(r.m.rotations())))
}

// Appender and 3 readers run concurrently; no flush completes while they run
// (the flusher sits in flushFn), so everything is served from memory.
func TestRaceAppendsDuringReads(t *testing.T) {
	vlib.Check(t, 4, 12, func(t *rapid.T) { raceScenario(t, false) })
}

// The same with a free-running flusher: flush completions (and the switch of
// readers to the disk stream) interleave with appends and reads.
func TestRaceFlushDuringReads(t *testing.T) {
	if raceBuild && vlib.Known(keyRace) {
		vlib.Excluded(keyRace)
		t.Skip("listed finding " + keyRace + ": a flush completing while a reader runs is reported by the race detector")
	}
	vlib.Check(t, 4, 12, func(t *rapid.T) { raceScenario(t, true) })
}
