//go:build race
// +build race

package c22

const raceBuild = true
