//go:build verif
// +build verif

package c20

import (
	"fmt"
	"strings"
	"testing"

	"github.com/chrislusf/seaweedfs/weed/pb/filer_pb"

	"verifharness/c20/fdrv"
	"verifharness/vlib"
)

// A small fixed alphabet of operations over the names /a, /b and /x/c.
// An operation whose precondition does not hold (e.g. update of a missing
// file) or whose input class is excluded by a listed finding prunes the
// sequence: only sequences in which every step acts are executed and counted.
type xop struct {
	name string
	run  func(s *sim) (r stepResult, ok bool)
}

func (s *sim) xnode(rel string) *fdrv.Node { return s.node(s.root + rel) }

func xput(rel string) xop {
	return xop{"put " + rel, func(s *sim) (stepResult, bool) {
		tgt := s.xnode(rel)
		if tgt != nil && tgt.IsDir() {
			return stepResult{}, false
		}
		if isLinked(tgt) && s.linkGroup(tgt) > 1 && vlib.Known("C20-overwrite-linked-name-deletes-shared-chunks") {
			vlib.Excluded("C20-overwrite-linked-name-deletes-shared-chunks")
			return stepResult{}, false
		}
		s.clock++
		c := s.e.DataChunk(0, 10, s.clock)
		dir, name := fdrv.SplitPath(s.root + rel)
		err := s.e.Create(dir, &filer_pb.Entry{Name: name, Attributes: attrs(s.clock, 10), Chunks: []*filer_pb.FileChunk{c}}, false)
		if tgt != nil {
			s.classes["overwrite"] = true
		}
		return stepResult{desc: fmt.Sprintf("put %s [%s] -> %s", rel, s.e.FmtChunks([]*filer_pb.FileChunk{c}), errStr(err)), requestsData: true, sharedContext: tgt != nil}, true
	}}
}

func xlink(src, dst string) xop {
	return xop{"link " + src + " " + dst, func(s *sim) (stepResult, bool) {
		n := s.xnode(src)
		if n == nil || n.IsDir() || s.xnode(dst) != nil {
			return stepResult{}, false
		}
		s.nLinkIds++
		err := s.e.Link(s.root+src, s.root+dst, fdrv.NewLinkId(s.seq, byte('A'+s.nLinkIds)))
		s.classes["link"] = true
		return stepResult{desc: fmt.Sprintf("link %s %s -> %s", src, dst, errStr(err)), requestsData: true}, true
	}}
}

// xupdate rewrites the chunk list of rel: mode "keep+add" keeps the first old
// chunk and adds a fresh one, "replace" drops all, "wrap" moves the old plain
// chunks into a new manifest chunk.
func xupdate(rel, mode, via string) xop {
	return xop{fmt.Sprintf("update(%s,%s) %s", via, mode, rel), func(s *sim) (stepResult, bool) {
		n := s.xnode(rel)
		if n == nil || n.IsDir() {
			return stepResult{}, false
		}
		ent, err := s.e.Lookup(n.Path)
		if err != nil || ent == nil {
			s.fatalf("lookup %s: %v\n%s", rel, err, s.history())
		}
		old := ent.Chunks
		var nc []*filer_pb.FileChunk
		r := stepResult{requestsData: true}
		switch mode {
		case "keep+add":
			if len(old) > 0 {
				nc = append(nc, old[0])
				if len(old) > 1 {
					r.sharedContext = true
					s.classes["update-keep-and-drop"] = true
				}
			}
			s.clock++
			nc = append(nc, s.e.DataChunk(endOf(old), 10, s.clock))
		case "replace":
			s.clock++
			nc = append(nc, s.e.DataChunk(0, 10, s.clock))
		case "wrap":
			var plain []*filer_pb.FileChunk
			for _, c := range old {
				if c.IsChunkManifest {
					nc = append(nc, c)
				} else {
					plain = append(plain, c)
				}
			}
			if len(plain) == 0 {
				return stepResult{}, false
			}
			if via == "create" && vlib.Known("C20-update-wraps-chunks-into-manifest") {
				vlib.Excluded("C20-update-wraps-chunks-into-manifest")
				return stepResult{}, false
			}
			s.clock++
			nc = append(nc, s.e.ManifestChunk(plain, s.clock))
			r.sharedContext = true
			s.classes["manifest-wrap-old-chunks"] = true
		}
		s.clock++
		ent.Chunks = nc
		ent.Attributes.Mtime = s.clock
		ent.Attributes.FileSize = uint64(endOf(nc))
		dir, _ := fdrv.SplitPath(n.Path)
		if via == "update" {
			err = s.e.Update(dir, ent)
		} else {
			err = s.e.Create(dir, ent, false)
		}
		if isLinked(n) {
			s.classes["update-through-linked-name"] = true
		}
		r.desc = fmt.Sprintf("update(%s,%s) %s [%s] -> %s", via, mode, rel, s.e.FmtChunks(nc), errStr(err))
		return r, true
	}}
}

func xdelete(rel string, how string) xop {
	return xop{fmt.Sprintf("delete(%s) %s", how, rel), func(s *sim) (stepResult, bool) {
		n := s.xnode(rel)
		if n == nil {
			return stepResult{}, false
		}
		data, rec := how == "data" || how == "rdata", how == "rdata" || how == "rnodata"
		if n.IsDir() != rec {
			return stepResult{}, false
		}
		if how == "mount" {
			data = n.Found.HardLinkCounter <= 1
		}
		if isLinked(n) {
			s.classes["delete-linked-name"] = true
			if data && how != "mount" && s.linkGroup(n) > 1 && vlib.Known("C20-delete-linked-name-deletes-shared-chunks") {
				vlib.Excluded("C20-delete-linked-name-deletes-shared-chunks")
				return stepResult{}, false
			}
		}
		if rec && s.subtreeHasLinked(n.Path) {
			if vlib.Known("C20-recursive-delete-leaks-linked-chunks") {
				vlib.Excluded("C20-recursive-delete-leaks-linked-chunks")
				return stepResult{}, false
			}
			s.classes["recursive-delete-with-linked"] = true
		}
		dir, name := fdrv.SplitPath(n.Path)
		err := s.e.Delete(dir, name, data, rec, false)
		return stepResult{desc: fmt.Sprintf("delete(%s) %s data=%v -> %s", how, rel, data, errStr(err)), requestsData: data}, true
	}}
}

func xrename(src, dst string) xop {
	return xop{"rename " + src + " " + dst, func(s *sim) (stepResult, bool) {
		n := s.xnode(src)
		if n == nil || n.IsDir() {
			return stepResult{}, false
		}
		tgt := s.xnode(dst)
		if tgt != nil && tgt.IsDir() {
			return stepResult{}, false
		}
		if isLinked(n) && vlib.Known("C20-rename-linked-name-unshares-identity") {
			vlib.Excluded("C20-rename-linked-name-unshares-identity")
			return stepResult{}, false
		}
		if isLinked(tgt) && s.linkGroup(tgt) > 1 && vlib.Known("C20-overwrite-linked-name-deletes-shared-chunks") {
			vlib.Excluded("C20-overwrite-linked-name-deletes-shared-chunks")
			return stepResult{}, false
		}
		if isLinked(n) && isLinked(tgt) && string(n.Found.HardLinkId) != string(tgt.Found.HardLinkId) {
			s.classes["rename-linked-onto-other-identity"] = true
			if s.linkGroup(n) >= 2 && s.linkGroup(tgt) >= 2 {
				s.classes["rename-across-two-multiname-identities"] = true
			}
		}
		od, on := fdrv.SplitPath(s.root + src)
		nd, nn := fdrv.SplitPath(s.root + dst)
		err := s.e.Rename(od, on, nd, nn)
		s.classes["rename-file"] = true
		if tgt != nil {
			s.classes["rename-onto-file"] = true
		}
		if isLinked(n) {
			s.classes["rename-linked-name"] = true
		}
		return stepResult{desc: fmt.Sprintf("rename %s %s -> %s", src, dst, errStr(err)), requestsData: true, sharedContext: tgt != nil}, true
	}}
}

// xsetup2 builds, on an empty tree and as one step, two link identities with
// two names each: X={/a,/b}, Y={/x/c,/x/d}.
func xsetup2() xop {
	return xop{"setup X={/a,/b} Y={/x/c,/x/d}", func(s *sim) (stepResult, bool) {
		if len(s.nodes) != 0 {
			return stepResult{}, false
		}
		var log []string
		for _, pr := range [][2]string{{"/a", "/b"}, {"/x/c", "/x/d"}} {
			s.clock++
			c := s.e.DataChunk(0, 10, s.clock)
			dir, name := fdrv.SplitPath(s.root + pr[0])
			err := s.e.Create(dir, &filer_pb.Entry{Name: name, Attributes: attrs(s.clock, 10), Chunks: []*filer_pb.FileChunk{c}}, false)
			s.nLinkIds++
			err2 := s.e.Link(s.root+pr[0], s.root+pr[1], fdrv.NewLinkId(s.seq, byte('A'+s.nLinkIds)))
			log = append(log, fmt.Sprintf("put %s [%s] -> %s, link %s %s -> %s", pr[0], s.e.FmtChunks([]*filer_pb.FileChunk{c}), errStr(err), pr[0], pr[1], errStr(err2)))
		}
		s.classes["link"] = true
		s.classes["two-identities-prologue"] = true
		return stepResult{desc: "setup: " + strings.Join(log, ", "), requestsData: true}, true
	}}
}

var alphabet = []xop{
	xsetup2(), xrename("/a", "/x/c"),
	xput("/a"), xput("/b"),
	xlink("/a", "/b"), xlink("/b", "/a"), xlink("/a", "/x/c"),
	xupdate("/a", "keep+add", "create"), xupdate("/a", "replace", "update"), xupdate("/b", "replace", "create"), xupdate("/a", "wrap", "create"), xupdate("/a", "wrap", "update"),
	xdelete("/a", "data"), xdelete("/b", "data"), xdelete("/a", "nodata"), xdelete("/a", "mount"), xdelete("/b", "mount"), xdelete("/x", "rdata"), xdelete("/x", "rnodata"), xdelete("/x/c", "mount"),
	xrename("/a", "/b"), xrename("/b", "/a"), xrename("/x/c", "/a"),
}

// TestPropExhaustiveSequences executes every sequence of operations from the
// alphabet up to the tier's length in which every step acts. Each sequence is
// run from an empty tree by exactly one shard (chosen by a hash of the
// sequence); a shard that finds a prefix without effect prunes its extensions.
func TestPropExhaustiveSequences(t *testing.T) {
	maxLen := vlib.Pick(4, 5)
	total, executed := 0, 0
	owns := func(seq []int) bool {
		h := uint32(2166136261)
		for _, k := range seq {
			h = (h ^ uint32(k+1)) * 16777619
		}
		return int(h%uint32(vlib.Shards())) == vlib.Shard()
	}
	// runSeq executes seq; when step j does not act it returns j, else -1.
	runSeq := func(seq []int) (failedAt int) {
		d := newDriver(func(format string, args ...interface{}) {
			var names []string
			for _, k := range seq {
				names = append(names, alphabet[k].name)
			}
			t.Fatalf("sequence [%s]: %s", strings.Join(names, " ; "), fmt.Sprintf(format, args...))
		}, nil)
		for i, k := range seq {
			ok := true
			d.do(i, func() stepResult {
				r, acted := alphabet[k].run(d.s)
				ok = acted
				if !acted {
					r.desc = "skip"
				}
				return r
			})
			if !ok {
				d.cleanup()
				return i
			}
		}
		d.finish("seq: ")
		return -1
	}
	// rec returns -1, or the length of a prefix of the current sequence found to be without effect.
	var rec func(prefix []int) int
	rec = func(prefix []int) int {
		if len(prefix) > 0 && owns(prefix) {
			total++
			if j := runSeq(prefix); j >= 0 {
				return j + 1
			}
			executed++
		}
		if len(prefix) == maxLen {
			return -1
		}
		for k := range alphabet {
			if r := rec(append(append([]int{}, prefix...), k)); r != -1 && r <= len(prefix) {
				return r
			}
		}
		return -1
	}
	rec(nil)
	vlib.Note(fmt.Sprintf("C20 exhaustive: shard %d executed %d of its %d candidate sequences of length <=%d over %d operations (the rest pruned: a step without effect or excluded by a listed finding)", vlib.Shard(), executed, total, maxLen, len(alphabet)))
	vlib.Exhaustive(fmt.Sprintf("op-sequences-len<=%d", maxLen), true)
}
