//go:build verif
// +build verif

// C20 Chunk garbage collection never deletes referenced data.
package c20

import (
	"fmt"
	"sort"
	"strings"
	"testing"

	"github.com/chrislusf/seaweedfs/weed/pb/filer_pb"
	"pgregory.net/rapid"

	"verifharness/c20/fdrv"
	"verifharness/vlib"
)

func TestMain(m *testing.M) {
	vlib.Rule("C20: histories of 3-14 namespace operations (put/overwrite, update keeping/dropping/reordering old chunks through CreateEntry or UpdateEntry, " +
		"manifest chunks incl. wrapping old chunks into a manifest and unwrapping, append, hard link by the mount's two-request protocol, rename of files and directories " +
		"incl. onto existing names, delete with isDeleteData and isRecursive both ways and with the mount's counter rule) over 12 file paths in 4 directories under a per-case root, " +
		"a quarter of the histories start from two link identities with two names each and then prefer linked names (renames of a name of one identity onto a name of the other, deletes of linked names); " +
		"run through the gRPC handler methods of a FilerServer on a real Filer (leveldb2); every file id handed to DeleteChunks/DirectDeleteChunks is recorded. " +
		"Non-trivial = a history in which, at the time of a step that deletes or drops chunks, some file id is shared: referenced by >=2 names (hard link), kept across an update that drops others, " +
		"moved into or out of a manifest, or the step is a rename/overwrite onto an existing file. Distinct = distinct written-out history.")
	vlib.Assume("C20: deletion decisions are observed at the two sinks (the argument of DeleteChunks expanded like DeleteChunks expands it, the final id list of DirectDeleteChunks); the 12-line body of DeleteChunks itself and the actual volume-server deletion are not exercised.")
	vlib.Assume("C20: the hard link protocol (UpdateEntry old name with id and counter+1, then CreateEntry new name), writes through a name (CreateEntry with the looked-up entry) and unlink (isDeleteData = counter<=1) are mirrored from weed/filesys; the link target never exists beforehand (kernel guarantees).")
	vlib.Assume("C20: a directory is never renamed into its own subtree (that is C18's concern) and nothing is placed under /buckets (collection deletion needs a master).")
	vlib.Main(m)
}

// ---------------------------------------------------------------- name space

var dirSuffixes = []string{"", "/x", "/x/y", "/z"}
var fileNames = []string{"a", "b", "c"}

type sim struct {
	t           *rapid.T
	fatalf      func(format string, args ...interface{})
	e           *fdrv.Env
	root        string
	seq         int
	clock       int64
	nodes       []*fdrv.Node
	hist        []string
	focusLinked bool // the history started with two multi-name link identities: prefer linked names
	// classification
	shared                                                      bool
	classes                                                     map[string]bool
	nLinkIds                                                    int
	sawDeleteObserved, sawKeepDrop, sawOverwrite, sawManifestMv bool
}

func (s *sim) node(path string) *fdrv.Node {
	for _, n := range s.nodes {
		if n.Path == path {
			return n
		}
	}
	return nil
}

func (s *sim) files() []*fdrv.Node {
	var out []*fdrv.Node
	for _, n := range s.nodes {
		if !n.IsDir() {
			out = append(out, n)
		}
	}
	return out
}

func (s *sim) dirsExisting() []*fdrv.Node {
	var out []*fdrv.Node
	for _, n := range s.nodes {
		if n.IsDir() {
			out = append(out, n)
		}
	}
	return out
}

// linkGroup returns the number of live names carrying the same hard link id as n (0 if n is not linked).
func (s *sim) linkGroup(n *fdrv.Node) int {
	if n == nil || n.Found == nil || len(n.Found.HardLinkId) == 0 {
		return 0
	}
	c := 0
	for _, m := range s.nodes {
		if m.Found != nil && string(m.Found.HardLinkId) == string(n.Found.HardLinkId) {
			c++
		}
	}
	return c
}

// linkedFiles returns the live hard-linked names.
func (s *sim) linkedFiles() []*fdrv.Node {
	var out []*fdrv.Node
	for _, n := range s.nodes {
		if isLinked(n) {
			out = append(out, n)
		}
	}
	return out
}

// identities returns the number of names per live hard link id.
func (s *sim) identities() map[string]int {
	m := map[string]int{}
	for _, n := range s.linkedFiles() {
		m[string(n.Found.HardLinkId)]++
	}
	return m
}

func isLinked(n *fdrv.Node) bool { return n != nil && n.Found != nil && len(n.Found.HardLinkId) != 0 }

// subtreeHasLinked reports whether the node or anything below it is a hard-linked name.
func (s *sim) subtreeHasLinked(path string) bool {
	for _, m := range s.nodes {
		if (m.Path == path || strings.HasPrefix(m.Path, path+"/")) && isLinked(m) {
			return true
		}
	}
	return false
}

func (s *sim) rel(p string) string {
	r := strings.TrimPrefix(p, s.root)
	if r == "" {
		return "/"
	}
	return r
}

func (s *sim) candidateFilePaths() []string {
	var out []string
	for _, d := range dirSuffixes {
		for _, f := range fileNames {
			out = append(out, s.root+d+"/"+f)
		}
	}
	return out
}

func attrs(mtime int64, size uint64) *filer_pb.FuseAttributes {
	return &filer_pb.FuseAttributes{Mtime: mtime, Crtime: 1600000000, FileMode: 0644, Uid: 1000, Gid: 1000, FileSize: size}
}

// freshChunks draws 1-3 fresh data chunks (optionally one of them covered by a
// later one, optionally wrapped into a manifest chunk), laid out from offset base.
func (s *sim) freshChunks(label string, base int64) []*filer_pb.FileChunk {
	n := rapid.IntRange(1, 3).Draw(s.t, label+".n")
	layout := rapid.SampledFrom([]string{"seq", "seq", "covered", "manifest", "manifest+plain"}).Draw(s.t, label+".layout")
	var out []*filer_pb.FileChunk
	off := base
	for i := 0; i < n; i++ {
		s.clock++
		c := s.e.DataChunk(off, 10, s.clock)
		if layout == "covered" && i > 0 {
			// same range as the previous chunk, newer: the previous one is fully covered
			c.Offset = out[i-1].Offset
		} else {
			off += 10
		}
		if layout != "covered" || i == 0 {
			// keep off advancing for non covered chunks
		}
		out = append(out, c)
	}
	switch layout {
	case "manifest":
		s.clock++
		s.classes["manifest"] = true
		return []*filer_pb.FileChunk{s.e.ManifestChunk(out, s.clock)}
	case "manifest+plain":
		if len(out) >= 2 {
			s.clock++
			s.classes["manifest"] = true
			m := s.e.ManifestChunk(out[:len(out)-1], s.clock)
			return []*filer_pb.FileChunk{m, out[len(out)-1]}
		}
	case "covered":
		if n > 1 {
			s.classes["covered-chunk"] = true
		}
	}
	return out
}

func endOf(chunks []*filer_pb.FileChunk) int64 {
	var hi int64
	for _, c := range chunks {
		if e := c.Offset + int64(c.Size); e > hi {
			hi = e
		}
	}
	return hi
}

// ---------------------------------------------------------------- one step

type stepResult struct {
	desc          string
	requestsData  bool // the operation requests deletion of the data it unreferences
	sharedContext bool // contributes to the non-trivial rule
}

func (s *sim) step(i int) stepResult {
	t := s.t
	e := s.e
	files := s.files()
	kinds := []string{"put", "put", "update", "update", "append", "link", "link", "rename", "rename", "delete", "delete", "delete"}
	if len(files) == 0 {
		kinds = []string{"put", "put", "put", "append", "delete"}
	}
	kind := rapid.SampledFrom(kinds).Draw(t, fmt.Sprintf("op%d", i))
	lbl := fmt.Sprintf("s%d", i)

	switch kind {
	case "put":
		// HTTP/S3-style write: a brand new entry (no hard link id) at a path, existing or not.
		paths := s.candidateFilePaths()
		if rapid.IntRange(0, 19).Draw(t, lbl+".ondir") == 0 && len(s.dirsExisting()) > 0 {
			// type conflict: a file over an existing directory (must fail and change nothing)
			d := rapid.SampledFrom(s.dirsExisting()).Draw(t, lbl+".dir")
			paths = []string{d.Path}
		}
		p := rapid.SampledFrom(paths).Draw(t, lbl+".path")
		tgt := s.node(p)
		if isLinked(tgt) && vlib.Known("C20-overwrite-linked-name-deletes-shared-chunks") && s.linkGroup(tgt) > 1 {
			vlib.Excluded("C20-overwrite-linked-name-deletes-shared-chunks")
			// write through the name instead (keeps the identity)
			return s.update(lbl, tgt, "create")
		}
		chunks := s.freshChunks(lbl+".chunks", 0)
		s.clock++
		dir, name := fdrv.SplitPath(p)
		err := e.Create(dir, &filer_pb.Entry{Name: name, Attributes: attrs(s.clock, uint64(endOf(chunks))), Chunks: chunks}, false)
		r := stepResult{requestsData: true}
		if tgt != nil && !tgt.IsDir() {
			s.classes["overwrite"] = true
			r.sharedContext = true
			if isLinked(tgt) {
				s.classes["overwrite-linked-name"] = true
			}
		}
		r.desc = fmt.Sprintf("put %s [%s] -> %s", s.rel(p), e.FmtChunks(chunks), errStr(err))
		return r

	case "update":
		n := rapid.SampledFrom(files).Draw(t, lbl+".file")
		via := rapid.SampledFrom([]string{"create", "create", "update"}).Draw(t, lbl+".via")
		return s.update(lbl, n, via)

	case "append":
		p := rapid.SampledFrom(s.candidateFilePaths()).Draw(t, lbl+".path")
		tgt := s.node(p)
		k := rapid.IntRange(1, 2).Draw(t, lbl+".n")
		var chunks []*filer_pb.FileChunk
		for j := 0; j < k; j++ {
			s.clock++
			chunks = append(chunks, e.DataChunk(0, 10, s.clock))
		}
		dir, name := fdrv.SplitPath(p)
		if tgt != nil && tgt.IsDir() {
			// AppendToEntry on a directory path: leave to C18
			return s.noop("append-on-dir")
		}
		err := e.Append(dir, name, chunks)
		s.classes["append"] = true
		return stepResult{desc: fmt.Sprintf("append %s [%s] -> %s", s.rel(p), e.FmtChunks(chunks), errStr(err)), requestsData: true}

	case "link":
		src := rapid.SampledFrom(files).Draw(t, lbl+".src")
		var free []string
		for _, p := range s.candidateFilePaths() {
			if s.node(p) == nil {
				free = append(free, p)
			}
		}
		if len(free) == 0 {
			return s.noop("link-no-free-name")
		}
		dst := rapid.SampledFrom(free).Draw(t, lbl+".dst")
		s.nLinkIds++
		id := fdrv.NewLinkId(s.seq, byte('A'+s.nLinkIds))
		err := e.Link(src.Path, dst, id)
		s.classes["link"] = true
		return stepResult{desc: fmt.Sprintf("link %s %s -> %s", s.rel(src.Path), s.rel(dst), errStr(err)), requestsData: true}

	case "rename":
		if len(s.nodes) == 0 {
			return s.noop("rename-nothing")
		}
		src := rapid.SampledFrom(s.nodes).Draw(t, lbl+".src")
		crossDst := ""
		if linked := s.linkedFiles(); len(linked) > 0 && (s.focusLinked || len(s.identities()) >= 2) && rapid.Bool().Draw(t, lbl+".preferLinked") {
			// a linked name, preferably moved onto a name of another link identity
			src = rapid.SampledFrom(linked).Draw(t, lbl+".linkedSrc")
			var others []string
			for _, m := range linked {
				if string(m.Found.HardLinkId) != string(src.Found.HardLinkId) {
					others = append(others, m.Path)
				}
			}
			if len(others) > 0 && rapid.IntRange(0, 2).Draw(t, lbl+".cross") > 0 {
				crossDst = rapid.SampledFrom(others).Draw(t, lbl+".crossDst")
			}
		}
		if vlib.Known("C20-rename-linked-name-unshares-identity") && s.subtreeHasLinked(src.Path) {
			vlib.Excluded("C20-rename-linked-name-unshares-identity")
			return s.noop("rename-linked(excluded)")
		}
		var dsts []string
		if src.IsDir() {
			for _, d := range []string{"/x", "/x/y", "/z", "/w", "/z/v"} {
				p := s.root + d
				if p == src.Path || strings.HasPrefix(p, src.Path+"/") {
					continue // never into its own subtree
				}
				if n := s.node(p); n != nil && !n.IsDir() {
					continue
				}
				dsts = append(dsts, p)
			}
		} else {
			for _, p := range s.candidateFilePaths() {
				if p != src.Path {
					dsts = append(dsts, p)
				}
			}
		}
		if len(dsts) == 0 {
			return s.noop("rename-no-dst")
		}
		dst := crossDst
		if dst == "" {
			dst = rapid.SampledFrom(dsts).Draw(t, lbl+".dst")
		}
		tgt := s.node(dst)
		if !src.IsDir() && isLinked(src) && isLinked(tgt) && string(src.Found.HardLinkId) != string(tgt.Found.HardLinkId) {
			s.classes["rename-linked-onto-other-identity"] = true
			if s.linkGroup(src) >= 2 && s.linkGroup(tgt) >= 2 {
				s.classes["rename-across-two-multiname-identities"] = true
			}
		}
		if !src.IsDir() && isLinked(tgt) && s.linkGroup(tgt) > 1 && vlib.Known("C20-overwrite-linked-name-deletes-shared-chunks") {
			vlib.Excluded("C20-overwrite-linked-name-deletes-shared-chunks")
			return s.noop("rename-onto-linked(excluded)")
		}
		if src.IsDir() && tgt != nil && vlib.Known("C20-overwrite-linked-name-deletes-shared-chunks") && s.subtreeHasLinked(dst) {
			vlib.Excluded("C20-overwrite-linked-name-deletes-shared-chunks")
			return s.noop("rename-dir-onto-linked(excluded)")
		}
		if src.IsDir() && tgt != nil && s.subtreeHasLinked(src.Path) && vlib.Known("C20-dir-rename-merge-stale-hardlink-counter") {
			vlib.Excluded("C20-dir-rename-merge-stale-hardlink-counter")
			return s.noop("rename-dir-merge-with-linked(excluded)")
		}
		od, on := fdrv.SplitPath(src.Path)
		nd, nn := fdrv.SplitPath(dst)
		err := e.Rename(od, on, nd, nn)
		r := stepResult{requestsData: true}
		if src.IsDir() {
			s.classes["rename-dir"] = true
			if tgt != nil {
				s.classes["rename-dir-merge"] = true
				r.sharedContext = true
			}
		} else {
			s.classes["rename-file"] = true
			if tgt != nil && !tgt.IsDir() {
				s.classes["rename-onto-file"] = true
				r.sharedContext = true
			}
			if isLinked(src) {
				s.classes["rename-linked-name"] = true
			}
		}
		r.desc = fmt.Sprintf("rename %s %s -> %s", s.rel(src.Path), s.rel(dst), errStr(err))
		return r

	case "delete":
		if len(s.nodes) == 0 {
			return s.noop("delete-nothing")
		}
		n := rapid.SampledFrom(s.nodes).Draw(t, lbl+".path")
		if linked := s.linkedFiles(); len(linked) > 0 && s.focusLinked && rapid.Bool().Draw(t, lbl+".preferLinked") {
			n = rapid.SampledFrom(linked).Draw(t, lbl+".linkedPath")
		}
		data := rapid.Bool().Draw(t, lbl+".data")
		rec := rapid.Bool().Draw(t, lbl+".recursive")
		ign := rapid.IntRange(0, 3).Draw(t, lbl+".ignoreRecErr") == 0
		mode := ""
		if isLinked(n) {
			mount := rapid.Bool().Draw(t, lbl+".mountRule")
			if !mount && data && s.linkGroup(n) > 1 && vlib.Known("C20-delete-linked-name-deletes-shared-chunks") {
				vlib.Excluded("C20-delete-linked-name-deletes-shared-chunks")
				mount = true
			}
			if mount {
				data = n.Found.HardLinkCounter <= 1
				rec, ign = false, false
				mode = " (mount rule)"
			}
			s.classes["delete-linked-name"] = true
		}
		if n.IsDir() && rec && s.subtreeHasLinked(n.Path) {
			if vlib.Known("C20-recursive-delete-leaks-linked-chunks") {
				vlib.Excluded("C20-recursive-delete-leaks-linked-chunks")
				return s.noop("recursive-delete-with-linked(excluded)")
			}
			s.classes["recursive-delete-with-linked"] = true
		}
		dir, name := fdrv.SplitPath(n.Path)
		err := e.Delete(dir, name, data, rec, ign)
		if n.IsDir() {
			s.classes["delete-dir"] = true
		}
		return stepResult{desc: fmt.Sprintf("delete %s data=%v recursive=%v ignErr=%v%s -> %s", s.rel(n.Path), data, rec, ign, mode, errStr(err)), requestsData: data}
	}
	panic("unreachable")
}

func (s *sim) noop(why string) stepResult {
	return stepResult{desc: "skip(" + why + ")"}
}

func errStr(err error) string {
	if err == nil {
		return "ok"
	}
	return "error"
}

// update rewrites an existing file through its name the way the mount does:
// load the entry (hard link id and counter included), replace the chunk list,
// send it with CreateEntry (file handle flush) or UpdateEntry.
func (s *sim) update(lbl string, n *fdrv.Node, via string) stepResult {
	t := s.t
	e := s.e
	ent, err := e.Lookup(n.Path)
	if err != nil || ent == nil {
		s.fatalf("lookup of listed file %s failed: %v\n%s", n.Path, err, s.history())
	}
	old := ent.Chunks
	// which old chunks are kept, in which order
	var kept, dropped []*filer_pb.FileChunk
	for j, c := range old {
		if rapid.Bool().Draw(t, fmt.Sprintf("%s.keep%d", lbl, j)) {
			kept = append(kept, c)
		} else {
			dropped = append(dropped, c)
		}
	}
	if len(kept) > 1 && rapid.Bool().Draw(t, lbl+".reverse") {
		for a, b := 0, len(kept)-1; a < b; a, b = a+1, b-1 {
			kept[a], kept[b] = kept[b], kept[a]
		}
	}
	note := ""
	// manifest moves
	move := rapid.SampledFrom([]string{"none", "none", "none", "wrap", "unwrap"}).Draw(t, lbl+".manifestMove")
	switch move {
	case "wrap":
		// wrap the kept plain chunks into a new manifest chunk (what MaybeManifestize does on a large file)
		var plain, rest []*filer_pb.FileChunk
		for _, c := range kept {
			if c.IsChunkManifest {
				rest = append(rest, c)
			} else {
				plain = append(plain, c)
			}
		}
		if len(plain) > 0 {
			key := "C20-update-wraps-chunks-into-manifest"
			if vlib.Known(key) && via == "create" {
				vlib.Excluded(key)
			} else {
				s.clock++
				kept = append(rest, e.ManifestChunk(plain, s.clock))
				note = " wrap"
				s.classes["manifest-wrap-old-chunks"] = true
				s.sawManifestMv = true
			}
		}
	case "unwrap":
		// replace a kept manifest chunk by the chunks it lists
		for j, c := range kept {
			if c.IsChunkManifest {
				key := "C20-update-unwraps-manifest"
				if vlib.Known(key) {
					vlib.Excluded(key)
					break
				}
				var nk []*filer_pb.FileChunk
				nk = append(nk, kept[:j]...)
				nk = append(nk, e.ManifestContent(c.GetFileIdString())...)
				nk = append(nk, kept[j+1:]...)
				kept = nk
				note = " unwrap"
				s.classes["manifest-unwrap"] = true
				s.sawManifestMv = true
				break
			}
		}
	}
	var fresh []*filer_pb.FileChunk
	if rapid.Bool().Draw(t, lbl+".addFresh") || len(kept) == 0 {
		fresh = s.freshChunks(lbl+".fresh", endOf(old))
	}
	newChunks := append(append([]*filer_pb.FileChunk{}, kept...), fresh...)
	s.clock++
	ent.Chunks = newChunks
	ent.Attributes.Mtime = s.clock
	ent.Attributes.FileSize = uint64(endOf(newChunks))
	dir, _ := fdrv.SplitPath(n.Path)
	if via == "update" {
		err = e.Update(dir, ent)
	} else {
		err = e.Create(dir, ent, false)
	}
	r := stepResult{requestsData: true}
	if len(kept) > 0 && len(dropped) > 0 {
		s.classes["update-keep-and-drop"] = true
		r.sharedContext = true
	}
	if note != "" {
		r.sharedContext = true
	}
	if isLinked(n) {
		s.classes["update-through-linked-name"] = true
	}
	r.desc = fmt.Sprintf("update(%s)%s %s [%s] -> %s", via, note, s.rel(n.Path), e.FmtChunks(newChunks), errStr(err))
	return r
}

func (s *sim) history() string {
	return "history:\n  " + strings.Join(s.hist, "\n  ")
}

func (s *sim) scan() {
	nodes, err := s.e.Walk(s.root)
	if err != nil {
		s.fatalf("scan failed: %v\n%s", err, s.history())
	}
	s.nodes = nodes
}

func sortedKeys(m map[string]int) []string {
	var out []string
	for k := range m {
		out = append(out, k)
	}
	sort.Strings(out)
	return out
}

// driver runs steps and checks the two halves of the property after every step.
type driver struct {
	s          *sim
	ever       map[string]bool
	everList   []string
	nontrivial bool
}

func newDriver(fatalf func(format string, args ...interface{}), t *rapid.T) *driver {
	e := fdrv.Get()
	root, seq := e.NextCase()
	s := &sim{t: t, fatalf: fatalf, e: e, root: root, seq: seq, classes: map[string]bool{}}
	s.scan()
	return &driver{s: s, ever: map[string]bool{}}
}

// do executes one step (given as a function) and applies the oracle.
func (d *driver) do(i int, step func() stepResult) {
	s, e := d.s, d.s.e
	before := e.Refs(s.nodes)
	sharedBefore := false
	for _, c := range before {
		if c >= 2 {
			sharedBefore = true
		}
	}
	e.Drain()
	r := step()
	observed := e.Drain()
	s.scan()
	after := e.Refs(s.nodes)
	s.hist = append(s.hist, fmt.Sprintf("%s   deleted{%s}", r.desc, fdrv.ShortList(observed)))

	// safety: nothing handed to deletion (in this step or earlier: the harness
	// never re-introduces a file id) is referenced by a live name
	obs := map[string]bool{}
	for _, f := range observed {
		obs[f] = true
		if !d.ever[f] {
			d.ever[f] = true
			d.everList = append(d.everList, f)
		}
	}
	for _, f := range d.everList {
		if after[f] > 0 {
			var who []string
			for _, n := range s.nodes {
				if n.Found == nil {
					continue
				}
				for _, g := range e.ChunkFids(n.Found.Chunks) {
					if g == f {
						who = append(who, s.rel(n.Path))
						break
					}
				}
			}
			when := "in this step"
			if !obs[f] {
				when = "in an earlier step"
			}
			s.fatalf("SAFETY: after step %d chunk %s, handed to deletion %s, is referenced by %v\n%s", i, fdrv.Short(f), when, who, s.history())
		}
	}
	// completeness: what a data-deleting step unreferenced has been handed to deletion
	if r.requestsData {
		for _, f := range sortedKeys(before) {
			if after[f] == 0 && !obs[f] {
				s.fatalf("COMPLETENESS: step %d removed the last reference to chunk %s and requested data deletion, but the chunk was not handed to deletion\n%s", i, fdrv.Short(f), s.history())
			}
		}
	}
	dropped := false
	for f := range before {
		if after[f] == 0 {
			dropped = true
		}
	}
	if (len(observed) > 0 || dropped) && (sharedBefore || r.sharedContext) {
		d.nontrivial = true
	}
	if sharedBefore && (len(observed) > 0 || dropped) {
		s.classes["delete-while-hardlink-shared"] = true
	}
}

// finish records the case and removes its tree.
func (d *driver) finish(prefix string) {
	s := d.s
	var cl []string
	for c := range s.classes {
		cl = append(cl, c)
	}
	sort.Strings(cl)
	first := "plain-files"
	switch {
	case s.classes["rename-across-two-multiname-identities"]:
		first = "rename-across-identities"
	case s.classes["delete-while-hardlink-shared"]:
		first = "hardlink-shared"
	case s.classes["manifest-wrap-old-chunks"] || s.classes["manifest-unwrap"]:
		first = "manifest-move"
	case s.classes["manifest"]:
		first = "manifest"
	case s.classes["rename-onto-file"] || s.classes["rename-dir-merge"]:
		first = "rename-onto"
	case s.classes["update-keep-and-drop"]:
		first = "keep-and-drop"
	}
	vlib.Case(prefix+strings.Join(s.hist, " ; "), d.nontrivial, append([]string{first}, cl...)...)
	d.cleanup()
}

// cleanup removes the case's tree (not part of the checked history) to keep the store small.
func (d *driver) cleanup() {
	_ = d.s.e.Delete("/", strings.TrimPrefix(d.s.root, "/"), false, true, true)
	d.s.e.Drain()
}

func runHistory(t *rapid.T) {
	d := newDriver(t.Fatalf, t)
	steps := rapid.IntRange(3, 14).Draw(t, "steps")
	base := 0
	if rapid.IntRange(0, 3).Draw(t, "twoIdentitiesPrologue") == 0 {
		// start from two link identities with two names each (X={p0,p1}, Y={p2,p3})
		// and prefer linked names afterwards: renames across identities, deletes of linked names
		s := d.s
		paths := rapid.Permutation(s.candidateFilePaths()).Draw(t, "prologue.paths")[:4]
		for k := 0; k < 2; k++ {
			p, q := paths[2*k], paths[2*k+1]
			d.do(base, func() stepResult {
				chunks := s.freshChunks(fmt.Sprintf("prologue%d.chunks", k), 0)
				s.clock++
				dir, name := fdrv.SplitPath(p)
				err := s.e.Create(dir, &filer_pb.Entry{Name: name, Attributes: attrs(s.clock, uint64(endOf(chunks))), Chunks: chunks}, false)
				return stepResult{desc: fmt.Sprintf("put %s [%s] -> %s", s.rel(p), s.e.FmtChunks(chunks), errStr(err)), requestsData: true}
			})
			base++
			d.do(base, func() stepResult {
				s.nLinkIds++
				err := s.e.Link(p, q, fdrv.NewLinkId(s.seq, byte('A'+s.nLinkIds)))
				s.classes["link"] = true
				return stepResult{desc: fmt.Sprintf("link %s %s -> %s", s.rel(p), s.rel(q), errStr(err)), requestsData: true}
			})
			base++
		}
		s.focusLinked = true
		s.classes["two-identities-prologue"] = true
	}
	for i := 0; i < steps; i++ {
		i := base + i
		d.do(i, func() stepResult { return d.s.step(i) })
	}
	d.finish("")
}

func TestPropHistories(t *testing.T) {
	vlib.Check(t, 1200, 20000, runHistory)
}
