//go:build verif
// +build verif

package c20

import (
	"fmt"
	"strings"
	"testing"

	"github.com/chrislusf/seaweedfs/weed/pb/filer_pb"

	"verifharness/c20/fdrv"
	"verifharness/vlib"
)

// probe is a scripted history outside rapid.
type probe struct {
	e    *fdrv.Env
	root string
	seq  int
	log  []string
}

func newProbe() *probe {
	e := fdrv.Get()
	root, seq := e.NextCase()
	return &probe{e: e, root: root, seq: seq}
}

func (p *probe) put(path string, chunks ...*filer_pb.FileChunk) {
	dir, name := fdrv.SplitPath(p.root + path)
	err := p.e.Create(dir, &filer_pb.Entry{Name: name, Attributes: attrs(1, 10), Chunks: chunks}, false)
	p.log = append(p.log, fmt.Sprintf("put %s [%s] -> %v", path, p.e.FmtChunks(chunks), err))
}

func (p *probe) link(a, b string) {
	err := p.e.Link(p.root+a, p.root+b, fdrv.NewLinkId(p.seq, 'P'))
	p.log = append(p.log, fmt.Sprintf("link %s %s -> %v", a, b, err))
}

// referencedAndDeleted returns the ids handed to deletion since the last
// drain that a live name still references.
func (p *probe) referencedAndDeleted() (bad []string, observed []string) {
	observed = p.e.Drain()
	nodes, err := p.e.Walk(p.root)
	if err != nil {
		return []string{"walk: " + err.Error()}, observed
	}
	refs := p.e.Refs(nodes)
	for _, f := range observed {
		if refs[f] > 0 {
			bad = append(bad, fdrv.Short(f))
		}
	}
	return bad, observed
}

func (p *probe) cleanup() {
	_ = p.e.Delete("/", strings.TrimPrefix(p.root, "/"), false, true, true)
	p.e.Drain()
}

func (p *probe) detail(extra string) string {
	return strings.Join(p.log, "; ") + "; " + extra
}

func TestFindingDeleteLinkedName(t *testing.T) {
	p := newProbe()
	defer p.cleanup()
	f1 := p.e.DataChunk(0, 10, 1)
	p.put("/a", f1)
	p.link("/a", "/b")
	p.e.Drain()
	err := p.e.Delete(p.root, "a", true, false, false)
	bad, obs := p.referencedAndDeleted()
	vlib.Finding(t, "C20-delete-linked-name-deletes-shared-chunks", len(bad) > 0,
		p.detail(fmt.Sprintf("DeleteEntry(/a,isDeleteData=true) -> %v handed {%s} to deletion; still referenced by /b: %v", err, fdrv.ShortList(obs), bad)))
}

func TestFindingOverwriteLinkedName(t *testing.T) {
	p := newProbe()
	defer p.cleanup()
	f1 := p.e.DataChunk(0, 10, 1)
	p.put("/a", f1)
	p.link("/a", "/b")
	p.e.Drain()
	p.put("/a", p.e.DataChunk(0, 10, 2))
	bad, obs := p.referencedAndDeleted()
	vlib.Finding(t, "C20-overwrite-linked-name-deletes-shared-chunks", len(bad) > 0,
		p.detail(fmt.Sprintf("plain CreateEntry over /a handed {%s} to deletion; still referenced by /b: %v", fdrv.ShortList(obs), bad)))
}

func TestFindingWrapIntoManifest(t *testing.T) {
	p := newProbe()
	defer p.cleanup()
	f1 := p.e.DataChunk(0, 10, 1)
	p.put("/a", f1)
	p.e.Drain()
	p.put("/a", p.e.ManifestChunk([]*filer_pb.FileChunk{f1}, 2))
	bad, obs := p.referencedAndDeleted()
	vlib.Finding(t, "C20-update-wraps-chunks-into-manifest", len(bad) > 0,
		p.detail(fmt.Sprintf("CreateEntry(/a,[M{f1}]) handed {%s} to deletion; still referenced through the manifest: %v", fdrv.ShortList(obs), bad)))
}

func TestFindingUnwrapManifest(t *testing.T) {
	var all []string
	repro := false
	for _, via := range []string{"create", "update"} {
		p := newProbe()
		f1 := p.e.DataChunk(0, 10, 1)
		p.put("/a", p.e.ManifestChunk([]*filer_pb.FileChunk{f1}, 2))
		p.e.Drain()
		ent, _ := p.e.Lookup(p.root + "/a")
		if ent == nil {
			all = append(all, via+": lookup failed")
			p.cleanup()
			continue
		}
		ent.Chunks = []*filer_pb.FileChunk{f1}
		ent.Attributes.Mtime = 5
		var err error
		if via == "create" {
			err = p.e.Create(p.root, ent, false)
		} else {
			err = p.e.Update(p.root, ent)
		}
		bad, obs := p.referencedAndDeleted()
		if len(bad) > 0 {
			repro = true
		}
		all = append(all, fmt.Sprintf("%s: put /a [M{f1}]; %sEntry(/a,[f1]) -> %v handed {%s} to deletion; still referenced: %v", via, strings.Title(via), err, fdrv.ShortList(obs), bad))
		p.cleanup()
	}
	vlib.Finding(t, "C20-update-unwraps-manifest", repro, strings.Join(all, " | "))
}

func TestFindingRenameLinkedName(t *testing.T) {
	p := newProbe()
	defer p.cleanup()
	f1 := p.e.DataChunk(0, 10, 1)
	p.put("/a", f1)
	p.link("/a", "/b")
	err := p.e.Rename(p.root, "a", p.root, "c")
	p.e.Drain()
	data, err2 := p.e.UnlinkMount(p.root + "/b") // the mount's rule: isDeleteData = counter <= 1
	bad, obs := p.referencedAndDeleted()
	c, _ := p.e.Lookup(p.root + "/c")
	vlib.Finding(t, "C20-rename-linked-name-unshares-identity", len(bad) > 0,
		p.detail(fmt.Sprintf("rename /a /c -> %v (hard link id of /c now %q); unlink /b by the mount rule (isDeleteData=%v) -> %v handed {%s} to deletion; still referenced by /c: %v", err, c.GetHardLinkId(), data, err2, fdrv.ShortList(obs), bad)))
}

func TestFindingRecursiveDeleteLinked(t *testing.T) {
	p := newProbe()
	defer p.cleanup()
	f1 := p.e.DataChunk(0, 10, 1)
	p.put("/z/a", f1)
	p.link("/z/a", "/z/b")
	p.e.Drain()
	err := p.e.Delete(p.root, "z", true, true, false)
	obs := p.e.Drain()
	nodes, _ := p.e.Walk(p.root)
	leaked := len(nodes) == 0 // nothing references f1 any more
	for _, f := range obs {
		if f == fdrv.Canon(f1.FileId) {
			leaked = false
		}
	}
	vlib.Finding(t, "C20-recursive-delete-leaks-linked-chunks", leaked,
		p.detail(fmt.Sprintf("DeleteEntry(/z,isDeleteData=true,isRecursive=true) -> %v; entries left: %d; handed to deletion {%s}; f1 is unreferenced and was never handed to deletion: %v", err, len(nodes), fdrv.ShortList(obs), leaked)))
}

// A directory rename that merges into an existing directory lists the source
// children first; a hard-linked child listed with counter N is later re-created
// with N+1 although an earlier child of the same move replaced another name of
// the same hard link in the meantime.
func TestFindingDirRenameStaleCounter(t *testing.T) {
	p := newProbe()
	defer p.cleanup()
	f1, f2 := p.e.DataChunk(0, 10, 1), p.e.DataChunk(0, 10, 2)
	p.put("/x/a", f2)
	p.link("/x/a", "/x/y/c")
	p.put("/x/y/a", f1)
	err := p.e.Rename(p.root+"/x", "y", p.root, "x")
	c, _ := p.e.Lookup(p.root + "/x/c")
	p.e.Drain()
	err2 := p.e.Delete(p.root+"/x", "c", true, false, false) // the only name left of the hard link
	obs := p.e.Drain()
	nodes, _ := p.e.Walk(p.root)
	refs := p.e.Refs(nodes)
	leaked := refs[fdrv.Canon(f2.FileId)] == 0
	for _, f := range obs {
		if f == fdrv.Canon(f2.FileId) {
			leaked = false
		}
	}
	vlib.Finding(t, "C20-dir-rename-merge-stale-hardlink-counter", leaked,
		p.detail(fmt.Sprintf("rename /x/y /x -> %v (moves /x/y/a over /x/a, then /x/y/c to /x/c); /x/c shows HardLinkCounter=%d with one live name; DeleteEntry(/x/c,isDeleteData=true) -> %v handed {%s} to deletion; f2 unreferenced and never handed to deletion: %v", err, c.GetHardLinkCounter(), err2, fdrv.ShortList(obs), leaked)))
}
