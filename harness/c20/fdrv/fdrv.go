//go:build verif
// +build verif

// Package fdrv is the shared driver of the C20 and C21 checks: one real
// filer.Filer (leveldb2 store in a scratch directory, no masters) per test
// process, wrapped in a FilerServer through the verif constructor shim so that
// the gRPC handler methods are called in-process; an HTTP stub that serves the
// content of manifest chunks (so that ResolveOneChunkManifest works); the
// chunk-deletion observer; and the client-side protocols (hard link, write
// through a name, unlink) mirrored from weed/filesys.
package fdrv

import (
	"context"
	"encoding/hex"
	"fmt"
	"net"
	"net/http"
	"os"
	"sort"
	"strings"
	"sync"
	"time"

	"github.com/chrislusf/seaweedfs/weed/filer"
	leveldb2 "github.com/chrislusf/seaweedfs/weed/filer/leveldb2"
	"github.com/chrislusf/seaweedfs/weed/pb/filer_pb"
	weed_server "github.com/chrislusf/seaweedfs/weed/server"
	"github.com/chrislusf/seaweedfs/weed/storage/needle"
	"github.com/chrislusf/seaweedfs/weed/util/fla9"
	"github.com/chrislusf/seaweedfs/weed/util/log_buffer"
	"github.com/chrislusf/seaweedfs/weed/wdclient"
	"github.com/golang/protobuf/proto"
	"google.golang.org/grpc"

	"verifharness/vlib"
)

const (
	DataVid        = 3 // volume id of data chunks: no location known, deletion requests go nowhere
	ManifestVid    = 7 // volume id of manifest chunks: located at the HTTP stub
	HardLinkMarker = '\x01'
)

// conf is a util.Configuration over a map.
type conf map[string]string

func (c conf) GetString(k string) string          { return c[k] }
func (c conf) GetBool(k string) bool              { return c[k] == "true" }
func (c conf) GetInt(k string) int                { return 0 }
func (c conf) GetStringSlice(k string) []string   { return nil }
func (c conf) SetDefault(k string, v interface{}) {}

// Env is the per-process filer under test.
type Env struct {
	F  *filer.Filer
	FS *weed_server.FilerServer

	mu        sync.Mutex
	manifests map[string][]*filer_pb.FileChunk // canonical manifest fid -> chunks it lists
	observed  []string                         // canonical fids handed to deletion, in order
	seq       int
	nextKey   uint64
	caseBase  uint64
}

var (
	envOnce sync.Once
	env     *Env
)

// Canon is the canonical spelling of a file id (the two spellings in
// seaweedfs differ in leading zeros).
func Canon(fid string) string {
	f, err := needle.ParseFileIdFromString(fid)
	if err != nil {
		return "!" + fid
	}
	return fmt.Sprintf("%d,%x,%x", uint32(f.VolumeId), uint64(f.Key), uint32(f.Cookie))
}

// Get returns the process-wide environment, creating it on first use.
func Get() *Env {
	envOnce.Do(func() {
		dir := vlib.TempDir()
		// seaweedfs logs every failed deletion request (there is no volume server
		// here): keep that out of the shard log, in files under the scratch dir.
		_ = fla9.Set("logtostderr", "false")
		_ = fla9.Set("alsologtostderr", "false")
		_ = fla9.Set("stderrthreshold", "FATAL")
		_ = fla9.Set("logdir", dir)
		_ = os.MkdirAll(dir+"/store", 0755)

		store := &leveldb2.LevelDB2Store{}
		if err := store.Initialize(conf{"dir": dir + "/store"}, ""); err != nil {
			panic(err)
		}
		// NewFiler without masters: it only creates the master client (nothing is
		// dialled before KeepConnectedToMaster, which is never called), the
		// deletion queue and its consumer loop (without volume locations it
		// resolves nothing and contacts nobody), and the metadata log buffer.
		f := filer.NewFiler(nil, grpc.WithInsecure(), "verif", 0, "", "", "", nil)
		// The original log buffer flushes through the master (blocks forever
		// without one): stop it while it is empty and use one that drops its data.
		f.LocalMetaLogBuffer.Shutdown()
		f.LocalMetaLogBuffer = log_buffer.NewLogBuffer("verif", time.Hour, func(startTime, stopTime time.Time, buf []byte) {}, nil)
		f.DirBucketsPath = "/buckets"
		f.SetStore(store)
		f.LoadBuckets()

		e := &Env{F: f, manifests: map[string][]*filer_pb.FileChunk{}}
		e.FS = weed_server.NewVerifFilerServer(f, &weed_server.FilerOption{DirListingLimit: 100000})
		e.startStub()
		filer.VerifChunkDeletionObserver = e.observe
		env = e
	})
	return env
}

func (e *Env) observe(fileIds []string) {
	e.mu.Lock()
	for _, id := range fileIds {
		e.observed = append(e.observed, Canon(id))
	}
	e.mu.Unlock()
}

// Drain returns (and forgets) the file ids handed to deletion since the last call.
func (e *Env) Drain() []string {
	e.mu.Lock()
	defer e.mu.Unlock()
	o := e.observed
	e.observed = nil
	return o
}

// startStub serves manifest chunk content. It listens on a port ≥ 55536 so
// that the derived volume-server gRPC port (port+10000) is not a valid port:
// deletion requests for manifest chunks fail immediately instead of reaching
// whatever might listen there.
func (e *Env) startStub() {
	var ln net.Listener
	start := 55600 + (os.Getpid()*37)%9000
	for i := 0; i < 9000 && ln == nil; i++ {
		p := 55600 + (start-55600+i)%9900
		if l, err := net.Listen("tcp", fmt.Sprintf("127.0.0.1:%d", p)); err == nil {
			ln = l
		}
	}
	if ln == nil {
		panic("no port for the manifest stub")
	}
	mux := http.NewServeMux()
	mux.HandleFunc("/", func(w http.ResponseWriter, r *http.Request) {
		fid := Canon(strings.TrimPrefix(r.URL.Path, "/"))
		e.mu.Lock()
		chunks, ok := e.manifests[fid]
		e.mu.Unlock()
		if !ok {
			http.Error(w, "no such manifest", http.StatusNotFound)
			return
		}
		cp := make([]*filer_pb.FileChunk, len(chunks))
		for i, c := range chunks {
			cp[i] = proto.Clone(c).(*filer_pb.FileChunk)
		}
		filer_pb.BeforeEntrySerialization(cp)
		data, _ := proto.Marshal(&filer_pb.FileChunkManifest{Chunks: cp})
		w.Header().Set("Content-Type", "application/octet-stream")
		_, _ = w.Write(data)
	})
	go func() { _ = http.Serve(ln, mux) }()
	e.F.MasterClient.VerifAddLocation(ManifestVid, wdclient.Location{Url: ln.Addr().String(), PublicUrl: ln.Addr().String()})
}

// NextCase starts a new case: returns a fresh root directory and a case number
// (used to make file ids and hard link ids unique within the process).
func (e *Env) NextCase() (root string, seq int) {
	e.mu.Lock()
	e.seq++
	seq = e.seq
	e.observed = nil
	e.caseBase = e.nextKey
	e.mu.Unlock()
	return fmt.Sprintf("/t%d", seq), seq
}

// FreshFid returns a never used file id on the given volume.
func (e *Env) FreshFid(vid uint32) string {
	e.mu.Lock()
	e.nextKey++
	k := e.nextKey
	e.mu.Unlock()
	return needle.NewFileId(needle.VolumeId(vid), 0x100000+k, 0x1234abcd).String()
}

// DataChunk makes a data chunk with a fresh file id.
func (e *Env) DataChunk(offset int64, size uint64, mtime int64) *filer_pb.FileChunk {
	return &filer_pb.FileChunk{FileId: e.FreshFid(DataVid), Offset: offset, Size: size, Mtime: mtime, ETag: "e"}
}

// ManifestChunk makes a manifest chunk with a fresh file id whose content
// (served by the stub) lists the given data chunks.
func (e *Env) ManifestChunk(data []*filer_pb.FileChunk, mtime int64) *filer_pb.FileChunk {
	fid := e.FreshFid(ManifestVid)
	var lo, hi int64 = 1 << 62, 0
	cp := make([]*filer_pb.FileChunk, len(data))
	for i, c := range data {
		cp[i] = proto.Clone(c).(*filer_pb.FileChunk)
		if c.Offset < lo {
			lo = c.Offset
		}
		if c.Offset+int64(c.Size) > hi {
			hi = c.Offset + int64(c.Size)
		}
	}
	if len(data) == 0 {
		lo = 0
	}
	e.mu.Lock()
	e.manifests[Canon(fid)] = cp
	e.mu.Unlock()
	return &filer_pb.FileChunk{FileId: fid, Offset: lo, Size: uint64(hi - lo), Mtime: mtime, ETag: "m", IsChunkManifest: true}
}

// ManifestContent returns the chunks listed by a manifest chunk the harness created (nil if unknown).
func (e *Env) ManifestContent(fid string) []*filer_pb.FileChunk {
	e.mu.Lock()
	defer e.mu.Unlock()
	return e.manifests[Canon(fid)]
}

// ChunkFids returns the canonical ids referenced by a chunk list: every chunk
// id, and for manifest chunks also the ids of the chunks the manifest lists.
func (e *Env) ChunkFids(chunks []*filer_pb.FileChunk) []string {
	var out []string
	for _, c := range chunks {
		out = append(out, Canon(c.GetFileIdString()))
		if c.IsChunkManifest {
			for _, d := range e.ManifestContent(c.GetFileIdString()) {
				out = append(out, Canon(d.GetFileIdString()))
			}
		}
	}
	return out
}

// ---------------------------------------------------------------- gRPC handler calls

func SplitPath(p string) (dir, name string) {
	i := strings.LastIndex(p, "/")
	if i <= 0 {
		return "/", p[i+1:]
	}
	return p[:i], p[i+1:]
}

func CloneEntry(e *filer_pb.Entry) *filer_pb.Entry {
	if e == nil {
		return nil
	}
	return proto.Clone(e).(*filer_pb.Entry)
}

// Create calls the CreateEntry handler; a non-empty resp.Error is returned as error (as filer_pb.CreateEntry does).
func (e *Env) Create(dir string, entry *filer_pb.Entry, oExcl bool) error {
	resp, err := e.FS.CreateEntry(context.Background(), &filer_pb.CreateEntryRequest{Directory: dir, Entry: CloneEntry(entry), OExcl: oExcl})
	if err != nil {
		return err
	}
	if resp != nil && resp.Error != "" {
		return fmt.Errorf("CreateEntry: %s", resp.Error)
	}
	return nil
}

func (e *Env) Update(dir string, entry *filer_pb.Entry) error {
	_, err := e.FS.UpdateEntry(context.Background(), &filer_pb.UpdateEntryRequest{Directory: dir, Entry: CloneEntry(entry)})
	return err
}

func (e *Env) Append(dir, name string, chunks []*filer_pb.FileChunk) error {
	cp := make([]*filer_pb.FileChunk, len(chunks))
	for i, c := range chunks {
		cp[i] = proto.Clone(c).(*filer_pb.FileChunk)
	}
	_, err := e.FS.AppendToEntry(context.Background(), &filer_pb.AppendToEntryRequest{Directory: dir, EntryName: name, Chunks: cp})
	return err
}

// Delete calls the DeleteEntry handler; resp.Error is returned as error (as filer_pb.Remove does).
func (e *Env) Delete(dir, name string, isDeleteData, isRecursive, ignoreRecursiveError bool) error {
	resp, err := e.FS.DeleteEntry(context.Background(), &filer_pb.DeleteEntryRequest{Directory: dir, Name: name,
		IsDeleteData: isDeleteData, IsRecursive: isRecursive, IgnoreRecursiveError: ignoreRecursiveError})
	if err != nil {
		return err
	}
	if resp != nil && resp.Error != "" {
		return fmt.Errorf("DeleteEntry: %s", resp.Error)
	}
	return nil
}

func (e *Env) Rename(oldDir, oldName, newDir, newName string) error {
	_, err := e.FS.AtomicRenameEntry(context.Background(), &filer_pb.AtomicRenameEntryRequest{OldDirectory: oldDir, OldName: oldName, NewDirectory: newDir, NewName: newName})
	return err
}

// Lookup calls LookupDirectoryEntry; (nil, nil) when the entry does not exist.
func (e *Env) Lookup(path string) (*filer_pb.Entry, error) {
	dir, name := SplitPath(path)
	resp, err := e.FS.LookupDirectoryEntry(context.Background(), &filer_pb.LookupDirectoryEntryRequest{Directory: dir, Name: name})
	if err == filer_pb.ErrNotFound {
		return nil, nil
	}
	if err != nil {
		return nil, err
	}
	return CloneEntry(resp.Entry), nil
}

type listStream struct {
	grpc.ServerStream
	out []*filer_pb.Entry
}

func (s *listStream) Context() context.Context { return context.Background() }
func (s *listStream) Send(r *filer_pb.ListEntriesResponse) error {
	s.out = append(s.out, CloneEntry(r.Entry))
	return nil
}

// List calls the ListEntries handler for one directory.
func (e *Env) List(dir string) ([]*filer_pb.Entry, error) {
	s := &listStream{}
	err := e.FS.ListEntries(&filer_pb.ListEntriesRequest{Directory: dir, Limit: 100000}, s)
	return s.out, err
}

// KvGetLink reads the shared hard link record of id; found=false when there is none.
func (e *Env) KvGetLink(id []byte) (rec *filer_pb.Entry, found bool, err error) {
	v, err := e.F.Store.KvGet(context.Background(), id)
	if err == filer.ErrKvNotFound {
		return nil, false, nil
	}
	if err != nil {
		return nil, false, err
	}
	rec = &filer_pb.Entry{}
	if err := proto.Unmarshal(v, rec); err != nil {
		return nil, true, err
	}
	filer_pb.AfterEntryDeserialization(rec.Chunks)
	return rec, true, nil
}

// ---------------------------------------------------------------- client protocols (weed/filesys)

// NewLinkId makes a hard link id the way weed/filesys/dir_link.go does
// (16 bytes + marker); the bytes come from the case number and a drawn tag
// instead of a random source.
func NewLinkId(seq int, tag byte) []byte {
	id := make([]byte, 0, 17)
	id = append(id, []byte(fmt.Sprintf("L%010d", seq))...)
	id = append(id, tag, 'x', 'y', 'z', 'w')
	return append(id, HardLinkMarker)
}

// Link mirrors Dir.Link of weed/filesys/dir_link.go: load the old entry, turn
// it into hard link mode if it is not yet (id, counter 1), counter+1,
// UpdateEntry(old), CreateEntry(new name with the same attributes, chunks,
// extended, id and counter). Precondition (kernel): newPath does not exist,
// oldPath is a file.
func (e *Env) Link(oldPath, newPath string, newId []byte) error {
	old, err := e.Lookup(oldPath)
	if err != nil {
		return err
	}
	if old == nil {
		return fmt.Errorf("link: %s not found", oldPath)
	}
	if len(old.HardLinkId) == 0 {
		old.HardLinkId = newId
		old.HardLinkCounter = 1
	}
	old.HardLinkCounter++
	od, _ := SplitPath(oldPath)
	if err := e.Update(od, old); err != nil {
		return err
	}
	nd, nn := SplitPath(newPath)
	return e.Create(nd, &filer_pb.Entry{
		Name:            nn,
		IsDirectory:     false,
		Attributes:      old.Attributes,
		Chunks:          old.Chunks,
		Extended:        old.Extended,
		HardLinkId:      old.HardLinkId,
		HardLinkCounter: old.HardLinkCounter,
	}, false)
}

// UnlinkMount mirrors Dir.removeOneFile of weed/filesys/dir.go:
// isDeleteData = HardLinkCounter <= 1.
func (e *Env) UnlinkMount(path string) (isDeleteData bool, err error) {
	ent, err := e.Lookup(path)
	if err != nil {
		return false, err
	}
	isDeleteData = ent != nil && ent.HardLinkCounter <= 1
	dir, name := SplitPath(path)
	return isDeleteData, e.Delete(dir, name, isDeleteData, false, false)
}

// ---------------------------------------------------------------- scanning

// Node is one entry found by Walk.
type Node struct {
	Path   string
	Listed *filer_pb.Entry // as returned by the ListEntries handler of the parent directory
	Found  *filer_pb.Entry // as returned by LookupDirectoryEntry (nil if the lookup failed)
}

func (n *Node) IsDir() bool { return n.Listed.IsDirectory }

// Walk lists the subtree under root (root itself excluded) in path order.
func (e *Env) Walk(root string) ([]*Node, error) {
	var out []*Node
	var rec func(dir string, depth int) error
	rec = func(dir string, depth int) error {
		if depth > 12 {
			return fmt.Errorf("walk: tree deeper than 12 at %s", dir)
		}
		ents, err := e.List(dir)
		if err != nil {
			return fmt.Errorf("list %s: %v", dir, err)
		}
		for _, le := range ents {
			p := dir + "/" + le.Name
			fe, err := e.Lookup(p)
			if err != nil {
				return fmt.Errorf("lookup %s: %v", p, err)
			}
			out = append(out, &Node{Path: p, Listed: le, Found: fe})
			if le.IsDirectory {
				if err := rec(p, depth+1); err != nil {
					return err
				}
			}
		}
		return nil
	}
	if err := rec(root, 0); err != nil {
		return nil, err
	}
	sort.Slice(out, func(i, j int) bool { return out[i].Path < out[j].Path })
	return out, nil
}

// Refs counts, per canonical file id, the live names referencing it (through
// their LookupDirectoryEntry view, manifests expanded).
func (e *Env) Refs(nodes []*Node) map[string]int {
	refs := map[string]int{}
	for _, n := range nodes {
		if n.Found == nil {
			continue
		}
		seen := map[string]bool{}
		for _, f := range e.ChunkFids(n.Found.Chunks) {
			if !seen[f] {
				seen[f] = true
				refs[f]++
			}
		}
	}
	return refs
}

// FmtChunks renders a chunk list for case descriptions.
func (e *Env) FmtChunks(chunks []*filer_pb.FileChunk) string {
	var b strings.Builder
	for i, c := range chunks {
		if i > 0 {
			b.WriteByte(' ')
		}
		fmt.Fprintf(&b, "%s@%d+%d", short(c.GetFileIdString()), c.Offset, c.Size)
		if c.IsChunkManifest {
			b.WriteString("{")
			for j, d := range e.ManifestContent(c.GetFileIdString()) {
				if j > 0 {
					b.WriteByte(' ')
				}
				b.WriteString(short(d.GetFileIdString()))
			}
			b.WriteString("}")
		}
	}
	return b.String()
}

// short renders a file id compactly, numbered relative to the first id of the current case.
func short(fid string) string {
	f, err := needle.ParseFileIdFromString(fid)
	if err != nil {
		return fid
	}
	env.mu.Lock()
	base := env.caseBase
	env.mu.Unlock()
	pre := "f"
	if uint32(f.VolumeId) == ManifestVid {
		pre = "M"
	}
	return fmt.Sprintf("%s%d", pre, int64(uint64(f.Key))-0x100000-int64(base))
}

// Short renders a canonical or raw file id compactly.
func Short(fid string) string {
	parts := strings.Split(fid, ",")
	if len(parts) == 3 {
		var v uint32
		var k uint64
		fmt.Sscanf(parts[0], "%d", &v)
		fmt.Sscanf(parts[1], "%x", &k)
		return short(needle.NewFileId(needle.VolumeId(v), k, 0x1234abcd).String())
	}
	return short(fid)
}

// ShortList renders a sorted list of canonical ids.
func ShortList(fids []string) string {
	out := make([]string, len(fids))
	for i, f := range fids {
		out[i] = Short(f)
	}
	sort.Strings(out)
	return strings.Join(out, ",")
}

func HexId(id []byte) string { return hex.EncodeToString(id) }
