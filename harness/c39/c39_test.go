// C39 The mount's node cache follows renames and deletes.
package c39

import (
	"context"
	"fmt"
	"runtime"
	"sort"
	"strings"
	"sync"
	"sync/atomic"
	"testing"

	"github.com/chrislusf/seaweedfs/weed/filesys"
	"github.com/chrislusf/seaweedfs/weed/util"
	"github.com/seaweedfs/fuse"
	"github.com/seaweedfs/fuse/fs"
	"pgregory.net/rapid"

	"verifharness/vlib"
)

func TestMain(m *testing.M) {
	vlib.Rule("C39: rapid op sequences (Set/Ensure/Get/Delete/Move) over non-root paths from {a,b,c}^<=3 on filesys.FsCache, with plain fs.Node values (any shape) and with typed *Dir/*File values (parents are *Dir or placeholders, the precondition of the type assertions in connectToParent); thorough adds every sequence of length<=4 over 6 paths. Oracle: independent reference tree (with placeholder nodes); GetFsNode of every path of the universe compared by pointer identity after each step; moved Dir/File name and parent fields. Non-trivial = a Move or Delete of a node that has descendants, or a Move onto an existing node.")
	vlib.Assume("FsCache has no callers in this tree besides its constructor; preconditions are taken from its tests: non-root paths, Move target not inside the moved subtree")
	vlib.Main(m)
}

// plain is an fs.Node that is neither *Dir nor *File.
type plain struct{ id int }

func (p *plain) Attr(ctx context.Context, a *fuse.Attr) error { return nil }

// ---------------------------------------------------------------- reference

type rnode struct {
	val      fs.Node
	children map[string]*rnode
}

type ref struct{ root *rnode }

func split(p string) []string { return strings.Split(strings.Trim(p, "/"), "/") }

func (r *ref) find(p string) (n, parent *rnode, name string) {
	n = r.root
	for _, s := range split(p) {
		parent, name = n, s
		n = n.children[s]
		if n == nil {
			return nil, nil, ""
		}
	}
	return
}

func (r *ref) ensure(p string) (n, parent *rnode, name string) {
	n = r.root
	for _, s := range split(p) {
		if n.children == nil {
			n.children = map[string]*rnode{}
		}
		c := n.children[s]
		if c == nil {
			c = &rnode{}
			n.children[s] = c
		}
		parent, name, n = n, s, c
	}
	return
}

func (r *ref) get(p string) fs.Node {
	if n, _, _ := r.find(p); n != nil {
		return n.val
	}
	return nil
}

func (r *ref) set(p string, v fs.Node) { n, _, _ := r.ensure(p); n.val = v }

func (r *ref) del(p string) {
	if n, parent, name := r.find(p); n != nil {
		delete(parent.children, name)
	}
}

// move returns the moved reference node (nil when the source does not exist).
func (r *ref) move(oldP, newP string) *rnode {
	src, sp, sname := r.find(oldP)
	if src == nil {
		return nil
	}
	delete(sp.children, sname)
	_, tp, tname := r.ensure(newP)
	tp.children[tname] = src
	return src
}

func hasDescendants(n *rnode) bool { return n != nil && len(n.children) > 0 }

// ---------------------------------------------------------------- universe

func universe(alpha []string, depth int) []string {
	var out []string
	var rec func(prefix string, d int)
	rec = func(prefix string, d int) {
		if d == 0 {
			return
		}
		for _, a := range alpha {
			p := prefix + "/" + a
			out = append(out, p)
			rec(p, d-1)
		}
	}
	rec("", depth)
	sort.Strings(out)
	return out
}

func under(p, anc string) bool { return p == anc || strings.HasPrefix(p, anc+"/") }

func base(p string) string { s := split(p); return s[len(s)-1] }
func dirOf(p string) string {
	i := strings.LastIndex(p, "/")
	return p[:i]
}

// compare checks every path of the universe by pointer identity.
func compare(c *filesys.FsCache, r *ref, uni []string) error {
	for _, p := range uni {
		got, want := c.GetFsNode(util.FullPath(p)), r.get(p)
		if got != want {
			return fmt.Errorf("GetFsNode(%s) = %v, reference tree has %v", p, describe(got), describe(want))
		}
	}
	return nil
}

func describe(n fs.Node) string {
	switch v := n.(type) {
	case nil:
		return "<nil>"
	case *plain:
		return fmt.Sprintf("plain#%d", v.id)
	case *filesys.Dir:
		return fmt.Sprintf("Dir(%s)@%p", v.VerifName(), v)
	case *filesys.File:
		return fmt.Sprintf("File(%s)@%p", v.Name, v)
	}
	return fmt.Sprintf("%T", n)
}

// ---------------------------------------------------------------- property

type op struct {
	kind   string
	p, q   string
	typed  string // "", "dir", "file", "plain"
	nodeID int
}

func (o op) String() string {
	switch o.kind {
	case "move":
		return fmt.Sprintf("Move(%s->%s)", o.p, o.q)
	case "set", "ensure":
		return fmt.Sprintf("%s(%s,%s#%d)", o.kind, o.p, o.typed, o.nodeID)
	}
	return fmt.Sprintf("%s(%s)", o.kind, o.p)
}

// runner applies ops to the cache and the reference and checks after each.
type runner struct {
	c      *filesys.FsCache
	r      *ref
	uni    []string
	typed  bool
	nextID int
	nt     bool
	trace  []string
}

func newRunner(uni []string, typed bool) *runner {
	return &runner{c: filesys.NewVerifFsCache(nil), r: &ref{root: &rnode{}}, uni: uni, typed: typed}
}

// typedParentOK: in typed mode the parent of the destination must be a *Dir
// value or a placeholder (nil value), or the root.
func (x *runner) parentIsDirOrPlaceholder(p string) bool {
	d := dirOf(p)
	if d == "" {
		return true
	}
	n, _, _ := x.r.find(d)
	if n == nil || n.val == nil {
		return true
	}
	_, ok := n.val.(*filesys.Dir)
	return ok
}

func (x *runner) newNode(p string, kind string) fs.Node {
	x.nextID++
	switch kind {
	case "dir":
		return filesys.NewVerifDir(base(p), nil)
	case "file":
		return filesys.NewVerifFile(base(p), nil)
	}
	return &plain{id: x.nextID}
}

func (x *runner) apply(o op) error {
	x.trace = append(x.trace, o.String())
	switch o.kind {
	case "set":
		n := x.newNode(o.p, o.typed)
		x.c.SetFsNode(util.FullPath(o.p), n)
		x.r.set(o.p, n)
	case "ensure":
		var made fs.Node
		got := x.c.EnsureFsNode(util.FullPath(o.p), func() fs.Node { made = x.newNode(o.p, o.typed); return made })
		want := x.r.get(o.p)
		if want == nil {
			if made == nil || got != made {
				return fmt.Errorf("EnsureFsNode(%s) on an absent path returned %v (generated %v)", o.p, describe(got), describe(made))
			}
			x.r.set(o.p, made)
		} else if got != want || made != nil {
			return fmt.Errorf("EnsureFsNode(%s) returned %v, cache should hold %v (generator called: %v)", o.p, describe(got), describe(want), made != nil)
		}
	case "get":
		// compare() below does it for every path
	case "delete":
		if n, _, _ := x.r.find(o.p); hasDescendants(n) {
			x.nt = true
		}
		x.c.DeleteFsNode(util.FullPath(o.p))
		x.r.del(o.p)
	case "move":
		srcRef, _, _ := x.r.find(o.p)
		tgtRef, _, _ := x.r.find(o.q)
		if hasDescendants(srcRef) || (srcRef != nil && tgtRef != nil && o.p != o.q) {
			x.nt = true
		}
		var srcVal fs.Node
		if srcRef != nil {
			srcVal = srcRef.val
		}
		ret := x.c.Move(util.FullPath(o.p), util.FullPath(o.q))
		moved := x.r.move(o.p, o.q)
		if (ret == nil) != (moved == nil) {
			return fmt.Errorf("Move(%s->%s) returned nil=%v, source existed=%v", o.p, o.q, ret == nil, moved != nil)
		}
		if moved != nil && srcVal != nil {
			// the moved value keeps its identity and, when typed, follows the rename
			if got := x.c.GetFsNode(util.FullPath(o.q)); got != srcVal {
				return fmt.Errorf("after Move(%s->%s) GetFsNode(%s) = %v, want the moved node %v", o.p, o.q, o.q, describe(got), describe(srcVal))
			}
			var parentDir *filesys.Dir
			if d := dirOf(o.q); d != "" {
				if pn, _, _ := x.r.find(d); pn != nil && pn.val != nil {
					parentDir, _ = pn.val.(*filesys.Dir)
				}
			}
			switch v := srcVal.(type) {
			case *filesys.Dir:
				if v.VerifName() != base(o.q) {
					return fmt.Errorf("after Move(%s->%s) the Dir is still named %q", o.p, o.q, v.VerifName())
				}
				if parentDir != nil && v.VerifParent() != parentDir {
					return fmt.Errorf("after Move(%s->%s) the Dir's parent is %v, want %v", o.p, o.q, describe(v.VerifParent()), describe(parentDir))
				}
			case *filesys.File:
				if v.Name != base(o.q) {
					return fmt.Errorf("after Move(%s->%s) the File is still named %q", o.p, o.q, v.Name)
				}
				if parentDir != nil && v.VerifDir() != parentDir {
					return fmt.Errorf("after Move(%s->%s) the File's dir is %v, want %v", o.p, o.q, describe(v.VerifDir()), describe(parentDir))
				}
			}
		}
	}
	if err := compare(x.c, x.r, x.uni); err != nil {
		return fmt.Errorf("after %s: %v", strings.Join(x.trace, "; "), err)
	}
	return nil
}

// admissible filters ops that violate the stated preconditions.
func (x *runner) admissible(o op) bool {
	if o.kind == "move" {
		if under(o.q, o.p) && o.q != o.p {
			return false // destination inside the moved subtree
		}
	}
	if !x.typed {
		return true
	}
	switch o.kind {
	case "set", "ensure":
		// a typed value may only sit under a *Dir or placeholder, and a *File value never gets children
		if !x.parentIsDirOrPlaceholder(o.p) {
			return false
		}
		if o.typed == "file" {
			if n, _, _ := x.r.find(o.p); hasDescendants(n) {
				return false
			}
		}
	case "move":
		if !x.parentIsDirOrPlaceholder(o.q) {
			return false
		}
		// moving a node must not leave typed children under a non-Dir: the moved
		// subtree keeps its own internal shape, so only the new parent matters
	}
	return true
}

func genOp(uni []string, typed bool) *rapid.Generator[op] {
	return rapid.Custom(func(t *rapid.T) op {
		o := op{}
		o.kind = rapid.SampledFrom([]string{"set", "set", "set", "ensure", "delete", "move", "move", "move", "get"}).Draw(t, "kind")
		o.p = rapid.SampledFrom(uni).Draw(t, "p")
		if o.kind == "move" {
			o.q = rapid.SampledFrom(uni).Draw(t, "q")
		}
		if typed {
			o.typed = rapid.SampledFrom([]string{"dir", "dir", "file"}).Draw(t, "type")
		} else {
			o.typed = "plain"
		}
		return o
	})
}

func runRandom(t *rapid.T, typed bool) {
	uni := universe([]string{"a", "b", "c"}, 3)
	x := newRunner(uni, typed)
	n := rapid.IntRange(1, 40).Draw(t, "nOps")
	skipped := 0
	for i := 0; i < n; i++ {
		o := genOp(uni, typed).Draw(t, "op")
		if !x.admissible(o) {
			skipped++
			continue
		}
		if err := x.apply(o); err != nil {
			t.Fatalf("%v", err)
		}
	}
	cls := "plain-nodes"
	if typed {
		cls = "typed-nodes"
	}
	vlib.Case(cls+": "+strings.Join(x.trace, "; "), x.nt, cls)
}

func TestPropFsCachePlain(t *testing.T) {
	vlib.Check(t, 6000, 100000, func(t *rapid.T) { runRandom(t, false) })
}

func TestPropFsCacheTyped(t *testing.T) {
	vlib.Check(t, 6000, 100000, func(t *rapid.T) { runRandom(t, true) })
}

// Every sequence of length <= L over 6 paths and the op kinds set/delete/move.
func TestPropFsCacheExhaustive(t *testing.T) {
	paths := []string{"/a", "/a/b", "/a/b/c", "/a/c", "/b", "/b/a"}
	uni := universe([]string{"a", "b", "c"}, 3)
	var ops []op
	for _, p := range paths {
		ops = append(ops, op{kind: "set", p: p, typed: "plain"}, op{kind: "delete", p: p})
		for _, q := range paths {
			if under(q, p) && q != p {
				continue
			}
			ops = append(ops, op{kind: "move", p: p, q: q})
		}
	}
	L := vlib.Pick(3, 4)
	total := 0
	idx := make([]int, L)
	var rec func(d int)
	var fail error
	rec = func(d int) {
		if fail != nil {
			return
		}
		if d > 0 {
			total++
			if vlib.ShardOwns(total) {
				x := newRunner(uni, false)
				for i := 0; i < d; i++ {
					if err := x.apply(ops[idx[i]]); err != nil {
						fail = err
						return
					}
				}
				vlib.Case("exh: "+strings.Join(x.trace, "; "), x.nt, "exhaustive")
			}
		}
		if d == L {
			return
		}
		for i := range ops {
			idx[d] = i
			rec(d + 1)
		}
	}
	rec(0)
	if fail != nil {
		t.Fatalf("%v", fail)
	}
	vlib.Exhaustive(fmt.Sprintf("all-sequences-len<=%d-over-%d-ops", L, len(ops)), true)
}

// ---------------------------------------------------------------- overlapping EnsureFsNode calls
//
// The statement is about operation sequences; two EnsureFsNode calls that overlap in time must still behave like
// *some* sequence of the two: on a reference tree the first one inserts and every later one finds that node. So all
// overlapping callers of one path receive one and the same node, GetFsNode returns it afterwards, and an already
// cached node is never replaced. (The mount calls EnsureFsNode from concurrently served Lookup requests.) The
// generator callback is harness code: it yields a drawn number of times so that the window between lookup and insert is
// wide whenever the implementation leaves one; the yields are schedule perturbation, never an oracle.
func TestPropConcurrentEnsure(t *testing.T) {
	uni := universe([]string{"a", "b", "c"}, 3)
	vlib.Check(t, 300, 3000, func(t *rapid.T) {
		c := filesys.NewVerifFsCache(nil)
		model := map[string]fs.Node{}
		nPre := rapid.IntRange(0, 6).Draw(t, "nPre")
		for i := 0; i < nPre; i++ {
			p := rapid.SampledFrom(uni).Draw(t, "pre")
			n := &plain{id: 1000 + i}
			c.SetFsNode(util.FullPath(p), n)
			model[p] = n
		}
		rounds := rapid.IntRange(1, 6).Draw(t, "rounds")
		yields := rapid.IntRange(0, 20).Draw(t, "yields")
		sawExisting, sawFresh := false, false
		var nextID int64 = 1
		for r := 0; r < rounds; r++ {
			g := rapid.IntRange(2, 8).Draw(t, "goroutines")
			nPaths := rapid.IntRange(1, 3).Draw(t, "nPaths")
			targets := make([]string, nPaths)
			for i := range targets {
				targets[i] = rapid.SampledFrom(uni).Draw(t, "target")
			}
			assign := make([]string, g)
			for i := range assign {
				assign[i] = targets[i%nPaths]
			}
			got := make([]fs.Node, g)
			var ready, done sync.WaitGroup
			var start int32
			ready.Add(g)
			done.Add(g)
			for i := 0; i < g; i++ {
				go func(i int) {
					defer done.Done()
					ready.Done()
					for atomic.LoadInt32(&start) == 0 {
						runtime.Gosched()
					}
					got[i] = c.EnsureFsNode(util.FullPath(assign[i]), func() fs.Node {
						id := atomic.AddInt64(&nextID, 1)
						for y := 0; y < yields; y++ {
							runtime.Gosched()
						}
						return &plain{id: int(id)}
					})
				}(i)
			}
			ready.Wait()
			atomic.StoreInt32(&start, 1)
			done.Wait()
			for _, p := range targets {
				var first fs.Node
				for i := 0; i < g; i++ {
					if assign[i] != p {
						continue
					}
					if got[i] == nil {
						t.Fatalf("round %d: EnsureFsNode(%s) returned nil", r, p)
					}
					if first == nil {
						first = got[i]
					} else if got[i] != first {
						t.Fatalf("round %d: overlapping EnsureFsNode(%s) calls returned different nodes %v and %v", r, p, first, got[i])
					}
				}
				if first == nil {
					continue
				}
				if was, ok := model[p]; ok {
					sawExisting = true
					if first != was {
						t.Fatalf("round %d: EnsureFsNode(%s) returned %v although %v was cached", r, p, first, was)
					}
				} else {
					sawFresh = true
				}
				if now := c.GetFsNode(util.FullPath(p)); now != first {
					t.Fatalf("round %d: GetFsNode(%s) = %v after overlapping EnsureFsNode calls returned %v", r, p, now, first)
				}
				model[p] = first
			}
			// nothing else moved
			for p, want := range model {
				if now := c.GetFsNode(util.FullPath(p)); now != want {
					t.Fatalf("round %d: GetFsNode(%s) = %v, reference has %v", r, p, now, want)
				}
			}
		}
		cls := []string{"concurrent-ensure"}
		if sawExisting {
			cls = append(cls, "concurrent-ensure-of-cached-path")
		}
		vlib.Case(fmt.Sprintf("concurrent-ensure rounds=%d yields=%d pre=%d", rounds, yields, nPre), sawFresh, cls...)
	})
}
