// C07 Deleting from an EC volume (or a read-only volume served from a sorted
// index) marks exactly that needle.
package c07

import (
	"bytes"
	"encoding/binary"
	"fmt"
	"os"
	"path/filepath"
	"sort"
	"strings"
	"testing"

	"github.com/chrislusf/seaweedfs/weed/storage"
	"github.com/chrislusf/seaweedfs/weed/storage/erasure_coding"
	"github.com/chrislusf/seaweedfs/weed/storage/needle"
	"github.com/chrislusf/seaweedfs/weed/storage/needle_map"
	"github.com/chrislusf/seaweedfs/weed/storage/types"
	"pgregory.net/rapid"

	"verifharness/vlib"
)

const (
	keyEcxOffset  = "C07-ecx-mark-offset-5bytes"
	keySdxHandle  = "C07-sdx-readonly-handle"
	keySdxIdxZero = "C07-sdx-idx-append-at-zero"
)

func TestMain(m *testing.M) {
	vlib.Rule(fmt.Sprintf("C07 (index entry = %d bytes): rapid-generated .idx histories (puts, overwrites, tombstones; dense, clustered-around-2^32 and random 64-bit keys; offsets over the whole range of the build's offset width) are turned into a sorted index of 0..300 entries by WriteSortedFileFromIdx; present keys (random order), absent keys and already deleted keys are deleted cumulatively (with the volume unmounted and mounted again, resp. the map reloaded, before some of the deletes) and each on a fresh copy, through EcVolume.DeleteNeedleFromEcx and through SortedFileNeedleMap.Delete; plus a bounded-exhaustive enumerator (every n<=N, every key deleted on a fresh copy, every ordered pair cumulatively, with and without a re-mount between the two). Non-trivial = sorted index with >=3 entries and a delete of a key that is not the first entry. Distinct = distinct (index content, delete order).", types.NeedleMapEntrySize))
	vlib.Assume("C07: the sorted index is produced by WriteSortedFileFromIdx from a well-formed .idx (offsets multiple of 8 below MaxPossibleVolumeSize, sizes >= 0); index files live on a local file system that honours pread/pwrite")
	vlib.Main(m)
}

type fataler interface {
	Fatalf(format string, args ...interface{})
}

// one line of an .idx history: size<0 means tombstone
type rec struct {
	key  uint64
	off  int64 // actual byte offset, multiple of 8
	size int32
}

func (r rec) String() string {
	if r.size < 0 {
		return fmt.Sprintf("del(%x)", r.key)
	}
	return fmt.Sprintf("put(%x@%d/%d)", r.key, r.off/8, r.size)
}

var maxUnits = int64(types.MaxPossibleVolumeSize/types.NeedlePaddingSize) - 1

// liveSet replays an .idx history the way the statement reads it: latest put wins, a tombstone removes.
func liveSet(hist []rec) []rec {
	m := map[uint64]rec{}
	for _, r := range hist {
		if r.size < 0 || r.off == 0 {
			delete(m, r.key)
		} else {
			m[r.key] = r
		}
	}
	out := make([]rec, 0, len(m))
	for _, r := range m {
		out = append(out, r)
	}
	sort.Slice(out, func(i, j int) bool { return out[i].key < out[j].key })
	return out
}

func idxBytes(hist []rec) []byte {
	var b []byte
	for _, r := range hist {
		sz := types.Size(r.size)
		if r.size < 0 {
			sz = types.TombstoneFileSize
		}
		b = append(b, needle_map.ToBytes(types.NeedleId(r.key), types.ToOffset(r.off), sz)...)
	}
	return b
}

// expected bytes of the sorted index after the keys in deleted were tombstoned in place
func sortedBytes(live []rec, deleted map[uint64]bool) []byte {
	var b []byte
	for _, r := range live {
		sz := types.Size(r.size)
		if deleted[r.key] {
			sz = types.TombstoneFileSize
		}
		b = append(b, needle_map.ToBytes(types.NeedleId(r.key), types.ToOffset(r.off), sz)...)
	}
	return b
}

func describeDiff(live []rec, want, got []byte) string {
	es := types.NeedleMapEntrySize
	if len(want) != len(got) {
		return fmt.Sprintf("length %d, want %d", len(got), len(want))
	}
	var sb strings.Builder
	for i := 0; i+es <= len(want); i += es {
		if !bytes.Equal(want[i:i+es], got[i:i+es]) {
			k, o, s := idxEntry(got[i : i+es])
			wk, wo, ws := idxEntry(want[i : i+es])
			fmt.Fprintf(&sb, " entry#%d is (key=%x off=%d size=%d) want (key=%x off=%d size=%d);", i/es, k, o, s, wk, wo, ws)
		}
	}
	return sb.String()
}

func idxEntry(b []byte) (uint64, int64, int32) {
	k := binary.BigEndian.Uint64(b[:8])
	o := types.BytesToOffset(b[8 : 8+types.OffsetSize])
	s := int32(binary.BigEndian.Uint32(b[8+types.OffsetSize:]))
	return k, o.ToActualOffset(), s
}

func mustWrite(t fataler, p string, b []byte) {
	if err := os.WriteFile(p, b, 0644); err != nil {
		t.Fatalf("write %s: %v", p, err)
	}
}

func mustRead(t fataler, p string) []byte {
	b, err := os.ReadFile(p)
	if err != nil {
		t.Fatalf("read %s: %v", p, err)
	}
	return b
}

// ------------------------------------------------------------------ generators

func genOffsetUnits() *rapid.Generator[int64] {
	edges := []int64{1, 2, 255, 256, 1<<24 - 1, 1 << 24, 1<<32 - 1, 1 << 32, 1<<32 + 1, 1 << 36, maxUnits}
	var ok []int64
	for _, e := range edges {
		if e <= maxUnits {
			ok = append(ok, e)
		}
	}
	return rapid.OneOf(rapid.Int64Range(1, maxUnits), rapid.Int64Range(1, 4096), rapid.SampledFrom(ok))
}

func genSize() *rapid.Generator[int32] {
	return rapid.OneOf(rapid.Int32Range(1, 1<<31-1), rapid.Int32Range(1, 70000), rapid.SampledFrom([]int32{0, 1, 2, 255, 256, 1<<31 - 1}))
}

// genKeys draws n distinct keys in one of several shapes.
func genKeys(t *rapid.T, n int) []uint64 {
	shape := rapid.SampledFrom([]string{"dense", "stride", "around2^32", "random64", "mixed"}).Draw(t, "keyShape")
	seen := map[uint64]bool{}
	var keys []uint64
	add := func(k uint64) {
		if !seen[k] {
			seen[k] = true
			keys = append(keys, k)
		}
	}
	base := rapid.SampledFrom([]uint64{1, 1, 0, 1000, 1<<32 - 40, 1 << 40, 1<<63 - 20, 1<<64 - 700}).Draw(t, "keyBase")
	for i := 0; len(keys) < n && i < 4*n+16; i++ {
		switch shape {
		case "dense":
			add(base + uint64(rapid.IntRange(0, n+n/2+2).Draw(t, "k")))
		case "stride":
			add(base + uint64(rapid.IntRange(0, n+2).Draw(t, "k"))*uint64(3))
		case "around2^32":
			add(uint64(rapid.IntRange(0, 3).Draw(t, "hi"))<<32 + uint64(rapid.IntRange(0, n/2+4).Draw(t, "lo")))
		case "random64":
			add(rapid.Uint64().Draw(t, "k"))
		default:
			if rapid.Bool().Draw(t, "far") {
				add(rapid.Uint64().Draw(t, "k"))
			} else {
				add(base + uint64(rapid.IntRange(0, 2*n+2).Draw(t, "k")))
			}
		}
	}
	return keys
}

// genHistory draws an .idx history whose live set has about n entries.
func genHistory(t *rapid.T) []rec {
	n := rapid.OneOf(rapid.IntRange(0, 12), rapid.IntRange(3, 60), rapid.IntRange(3, 300)).Draw(t, "n")
	keys := genKeys(t, n)
	var hist []rec
	unit := genOffsetUnits().Draw(t, "firstOffset")
	next := func() int64 {
		u := unit
		step := rapid.Int64Range(1, 5000).Draw(t, "step")
		if unit+step <= maxUnits {
			unit += step
		} else {
			unit = rapid.Int64Range(1, maxUnits).Draw(t, "wrapOffset")
		}
		return u * 8
	}
	independent := rapid.Bool().Draw(t, "independentOffsets")
	for _, k := range keys {
		kind := rapid.IntRange(0, 9).Draw(t, "hist")
		off := func() int64 {
			if independent {
				return genOffsetUnits().Draw(t, "off") * 8
			}
			return next()
		}
		switch {
		case kind == 0: // overwritten once
			hist = append(hist, rec{k, off(), genSize().Draw(t, "size0")})
			hist = append(hist, rec{k, off(), genSize().Draw(t, "size")})
		case kind == 1: // written and deleted before encoding: absent from the sorted index
			hist = append(hist, rec{k, off(), genSize().Draw(t, "size")})
			hist = append(hist, rec{k, off(), -1})
		case kind == 2: // deleted and written again
			hist = append(hist, rec{k, off(), genSize().Draw(t, "size0")})
			hist = append(hist, rec{k, off(), -1})
			hist = append(hist, rec{k, off(), genSize().Draw(t, "size")})
		default:
			hist = append(hist, rec{k, off(), genSize().Draw(t, "size")})
		}
	}
	// .idx order is arrival order, not key order: shuffle whole keys' groups by a drawn permutation
	if len(hist) > 1 && rapid.Bool().Draw(t, "interleave") {
		perm := rapid.Permutation(seq(len(keys))).Draw(t, "perm")
		groups := map[uint64][]rec{}
		for _, r := range hist {
			groups[r.key] = append(groups[r.key], r)
		}
		hist = hist[:0]
		for _, i := range perm {
			hist = append(hist, groups[keys[i]]...)
		}
	}
	return hist
}

func seq(n int) []int {
	s := make([]int, n)
	for i := range s {
		s[i] = i
	}
	return s
}

// absentKeys picks keys that are not in live: neighbours of present keys, formerly-present keys, extremes.
func absentCandidates(live []rec, hist []rec) []uint64 {
	in := map[uint64]bool{}
	for _, r := range live {
		in[r.key] = true
	}
	seen := map[uint64]bool{}
	var out []uint64
	add := func(k uint64) {
		if !in[k] && !seen[k] {
			seen[k] = true
			out = append(out, k)
		}
	}
	for _, r := range hist {
		add(r.key) // written and deleted before encoding
	}
	for _, r := range live {
		add(r.key + 1)
		add(r.key - 1)
		add(r.key + 1<<32)
	}
	add(0)
	add(1<<64 - 1)
	add(1 << 32)
	sort.Slice(out, func(i, j int) bool { return out[i] < out[j] })
	return out
}

// ------------------------------------------------------------------ EC volume

type ecFixture struct {
	dir  string
	data string // directory of the shard / .vif files; differs from dir (the index directory) in half of the fixtures, as with the volume server's -dir.idx option
	base string
	live []rec
	ecx0 []byte // sorted index as generated
}

func newEcFixture(t fataler, hist []rec) *ecFixture {
	dir := vlib.TempDir()
	fx := &ecFixture{dir: dir, data: dir, base: filepath.Join(dir, "1"), live: liveSet(hist)}
	// a pure function of the generated history, so that replays take the same branch
	var h uint64
	for _, r := range hist {
		h = h*31 + r.key + uint64(len(hist))
	}
	if h%2 == 1 {
		fx.data = filepath.Join(dir, "data")
		if err := os.MkdirAll(fx.data, 0755); err != nil {
			t.Fatalf("mkdir: %v", err)
		}
		vlib.Class("separate-index-directory")
	}
	mustWrite(t, fx.base+".idx", idxBytes(hist))
	if err := erasure_coding.WriteSortedFileFromIdx(fx.base, ".ecx"); err != nil {
		t.Fatalf("WriteSortedFileFromIdx: %v", err)
	}
	fx.ecx0 = mustRead(t, fx.base+".ecx")
	want := sortedBytes(fx.live, nil)
	if !bytes.Equal(fx.ecx0, want) {
		t.Fatalf("sorted index generated from the .idx history differs from the live set:%s\nhistory=%v", describeDiff(fx.live, want, fx.ecx0), hist)
	}
	return fx
}

func openEc(t fataler, fx *ecFixture) *erasure_coding.EcVolume {
	data := fx.data
	if data == "" {
		data = fx.dir
	}
	ev, err := erasure_coding.NewEcVolume(types.DiskType(""), data, fx.dir, "", needle.VolumeId(1))
	if err != nil {
		t.Fatalf("NewEcVolume: %v", err)
	}
	return ev
}

// checkFind compares FindNeedleFromEcx for the given keys with the model.
func checkFind(t fataler, ev *erasure_coding.EcVolume, live []rec, deleted map[uint64]bool, probe []uint64, ctx string) {
	idx := map[uint64]rec{}
	for _, r := range live {
		idx[r.key] = r
	}
	for _, k := range probe {
		off, size, err := ev.FindNeedleFromEcx(types.NeedleId(k))
		r, present := idx[k]
		switch {
		case !present:
			if err != erasure_coding.NotFoundError {
				t.Fatalf("%s: FindNeedleFromEcx(%x) of an absent key = (%d,%d,%v), want NotFoundError", ctx, k, off.ToActualOffset(), size, err)
			}
		case deleted[k]:
			if err != nil || !size.IsDeleted() {
				t.Fatalf("%s: FindNeedleFromEcx(%x) of a deleted key = (%d,%d,%v), want a deleted size", ctx, k, off.ToActualOffset(), size, err)
			}
		default:
			if err != nil || off.ToActualOffset() != r.off || int32(size) != r.size {
				t.Fatalf("%s: FindNeedleFromEcx(%x) = (%d,%d,%v), want live (%d,%d)", ctx, k, off.ToActualOffset(), size, err, r.off, r.size)
			}
		}
	}
}

func allKeys(live []rec) []uint64 {
	out := make([]uint64, len(live))
	for i, r := range live {
		out[i] = r.key
	}
	return out
}

func neighbours(live []rec, k uint64) []uint64 {
	i := sort.Search(len(live), func(i int) bool { return live[i].key >= k })
	var out []uint64
	for j := i - 2; j <= i+2; j++ {
		if j >= 0 && j < len(live) {
			out = append(out, live[j].key)
		}
	}
	if len(live) > 0 {
		out = append(out, live[0].key, live[len(live)-1].key, live[len(live)/2].key)
	}
	return append(out, k)
}

func journalIds(b []byte) []uint64 {
	var out []uint64
	for i := 0; i+8 <= len(b); i += 8 {
		out = append(out, binary.BigEndian.Uint64(b[i:]))
	}
	return out
}

// firstOccurrences removes repeated ids (a delete of an already deleted needle may or may not be journaled again).
func firstOccurrences(ids []uint64) []uint64 {
	seen := map[uint64]bool{}
	var out []uint64
	for _, k := range ids {
		if !seen[k] {
			seen[k] = true
			out = append(out, k)
		}
	}
	return out
}

func equalIds(a, b []uint64) bool {
	if len(a) != len(b) {
		return false
	}
	for i := range a {
		if a[i] != b[i] {
			return false
		}
	}
	return true
}

// liveFromIdx loads an .idx through MemDb.LoadFromIdx and returns the live entries in key order.
func liveFromIdx(t fataler, p string) []rec {
	db := needle_map.NewMemDb()
	defer db.Close()
	if err := db.LoadFromIdx(p); err != nil {
		t.Fatalf("LoadFromIdx %s: %v", p, err)
	}
	var out []rec
	err := db.AscendingVisit(func(v needle_map.NeedleValue) error {
		out = append(out, rec{uint64(v.Key), v.Offset.ToActualOffset(), int32(v.Size)})
		return nil
	})
	if err != nil {
		t.Fatalf("AscendingVisit: %v", err)
	}
	return out
}

func minus(live []rec, deleted map[uint64]bool) []rec {
	var out []rec
	for _, r := range live {
		if !deleted[r.key] {
			out = append(out, r)
		}
	}
	return out
}

func sameRecs(a, b []rec) bool {
	if len(a) != len(b) {
		return false
	}
	for i := range a {
		if a[i] != b[i] {
			return false
		}
	}
	return true
}

// runEcDeletes deletes the keys of order (present and absent, possibly repeated) from one EC volume
// cumulatively and checks every clause of the statement. It returns whether a non-first present key was deleted.
// reopen[i] closes the EC volume and mounts it again (NewEcVolume on the same files) before delete i.
func runEcDeletes(t fataler, fx *ecFixture, order []uint64, reopen map[int]bool, fullProbe bool, rebuild bool) {
	present := map[uint64]bool{}
	for _, r := range fx.live {
		present[r.key] = true
	}
	ev := openEc(t, fx)
	closed := false
	defer func() {
		if !closed {
			ev.Close()
		}
	}()
	deleted := map[uint64]bool{}
	var journal []uint64
	ctx := func(i int) string {
		var sb strings.Builder
		for j := 0; j <= i && j < len(order); j++ {
			if reopen[j] {
				sb.WriteString(" reopen")
			}
			fmt.Fprintf(&sb, " %x", order[j])
		}
		return fmt.Sprintf("sorted index of %d entries %v, deletes so far [%s]", len(fx.live), briefRecs(fx.live), strings.TrimSpace(sb.String()))
	}
	for i, k := range order {
		if reopen[i] {
			ev.Close()
			ev = openEc(t, fx)
		}
		if err := ev.DeleteNeedleFromEcx(types.NeedleId(k)); err != nil {
			t.Fatalf("%s: DeleteNeedleFromEcx(%x): %v", ctx(i), k, err)
		}
		if present[k] {
			if !deleted[k] {
				journal = append(journal, k)
			}
			deleted[k] = true
		}
		got := mustRead(t, fx.base+".ecx")
		if want := sortedBytes(fx.live, deleted); !bytes.Equal(got, want) {
			t.Fatalf("%s: after DeleteNeedleFromEcx(%x) the sorted index is wrong:%s", ctx(i), k, describeDiff(fx.live, want, got))
		}
		probe := neighbours(fx.live, k)
		if fullProbe {
			probe = append(allKeys(fx.live), k)
		}
		checkFind(t, ev, fx.live, deleted, probe, ctx(i))
		if j := firstOccurrences(journalIds(mustRead(t, fx.base+".ecj"))); !equalIds(j, journal) {
			t.Fatalf("%s: deletion journal holds %x, want %x", ctx(i), j, journal)
		}
	}
	ev.Close()
	closed = true
	c := ctx(len(order) - 1)
	if len(order) == 0 {
		c = fmt.Sprintf("sorted index of %d entries, no deletes", len(fx.live))
	}

	// reopening the EC volume sees the same state
	ev2 := openEc(t, fx)
	checkFind(t, ev2, fx.live, deleted, append(allKeys(fx.live), order...), c+" (reopened)")
	ev2.Close()

	if !rebuild {
		return
	}
	ecj := mustRead(t, fx.base+".ecj")
	wantLive := minus(fx.live, deleted)

	// .idx rebuilt from the marked .ecx + .ecj
	if err := erasure_coding.WriteIdxFileFromEcIndex(fx.base); err != nil {
		t.Fatalf("%s: WriteIdxFileFromEcIndex: %v", c, err)
	}
	if got := liveFromIdx(t, fx.base+".idx"); !sameRecs(got, wantLive) {
		t.Fatalf("%s: live set rebuilt from .ecx+.ecj = %v, want %v", c, briefRecs(got), briefRecs(wantLive))
	}

	// a pristine copy of the sorted index + the journal (what another server holds after copying shards)
	d2 := vlib.TempDir()
	defer os.RemoveAll(d2)
	b2 := filepath.Join(d2, "1")
	mustWrite(t, b2+".ecx", fx.ecx0)
	mustWrite(t, b2+".ecj", ecj)
	if err := erasure_coding.WriteIdxFileFromEcIndex(b2); err != nil {
		t.Fatalf("%s: WriteIdxFileFromEcIndex(pristine): %v", c, err)
	}
	if got := liveFromIdx(t, b2+".idx"); !sameRecs(got, wantLive) {
		t.Fatalf("%s: live set rebuilt from pristine .ecx + .ecj = %v, want %v", c, briefRecs(got), briefRecs(wantLive))
	}
	if err := erasure_coding.RebuildEcxFile(b2); err != nil {
		t.Fatalf("%s: RebuildEcxFile: %v", c, err)
	}
	got := mustRead(t, b2+".ecx")
	if want := sortedBytes(fx.live, deleted); !bytes.Equal(got, want) {
		t.Fatalf("%s: RebuildEcxFile(pristine .ecx + journal %x) gives a wrong sorted index:%s", c, journalIds(ecj), describeDiff(fx.live, want, got))
	}
	if _, err := os.Stat(b2 + ".ecj"); err == nil {
		t.Fatalf("%s: RebuildEcxFile left the journal in place", c)
	}
}

func briefRecs(rs []rec) string {
	var sb strings.Builder
	sb.WriteString("[")
	for i, r := range rs {
		if i == 12 && len(rs) > 16 {
			fmt.Fprintf(&sb, " …(%d more)", len(rs)-12)
			break
		}
		if i > 0 {
			sb.WriteString(" ")
		}
		fmt.Fprintf(&sb, "%x@%d/%d", r.key, r.off/8, r.size)
	}
	sb.WriteString("]")
	return sb.String()
}

func pos(live []rec, k uint64) int {
	i := sort.Search(len(live), func(i int) bool { return live[i].key >= k })
	if i < len(live) && live[i].key == k {
		return i
	}
	return -1
}

// restrictForKnown removes from order the deletes that fall in the input class of a listed finding.
func restrictEcOrder(live []rec, order []uint64) []uint64 {
	if types.OffsetSize == 4 || !vlib.Known(keyEcxOffset) {
		return order
	}
	// listed finding: under 5-byte offsets the tombstone of the entry at position m>0 is written at m*16 instead of m*17
	var out []uint64
	for _, k := range order {
		if p := pos(live, k); p > 0 {
			vlib.Excluded(keyEcxOffset)
			continue
		}
		out = append(out, k)
	}
	return out
}

func nonTrivial(live []rec, order []uint64) bool {
	if len(live) < 3 {
		return false
	}
	for _, k := range order {
		if pos(live, k) > 0 {
			return true
		}
	}
	return false
}

func sizeClass(n int) string {
	switch {
	case n == 0:
		return "n=0"
	case n < 3:
		return "n=1-2"
	case n <= 16:
		return "n=3-16"
	case n <= 64:
		return "n=17-64"
	}
	return "n=65-300"
}

func TestPropEcxDelete(t *testing.T) {
	vlib.Check(t, 200, 3000, func(t *rapid.T) {
		hist := genHistory(t)
		fx := newEcFixture(t, hist)
		defer os.RemoveAll(fx.dir)
		n := len(fx.live)
		abs := absentCandidates(fx.live, hist)

		// cumulative order: a drawn subset of the present keys in a drawn order, absent keys and repeats mixed in
		var order []uint64
		if n > 0 {
			perm := rapid.Permutation(seq(n)).Draw(t, "perm")
			cnt := rapid.OneOf(rapid.IntRange(0, n), rapid.Just(n), rapid.IntRange(0, 6)).Draw(t, "nDeletes")
			if cnt > n {
				cnt = n
			}
			for _, i := range perm[:cnt] {
				order = append(order, fx.live[i].key)
			}
		}
		nAbs := rapid.IntRange(0, 4).Draw(t, "nAbsent")
		for i := 0; i < nAbs && len(abs) > 0; i++ {
			k := rapid.SampledFrom(abs).Draw(t, "absent")
			at := rapid.IntRange(0, len(order)).Draw(t, "absentAt")
			order = append(order[:at], append([]uint64{k}, order[at:]...)...)
		}
		repeats := 0
		if len(order) > 0 {
			repeats = rapid.IntRange(0, 2).Draw(t, "nRepeat")
			for i := 0; i < repeats; i++ {
				from := rapid.IntRange(0, len(order)-1).Draw(t, "repeatOf")
				order = append(order, order[from]) // delete again later
			}
		}
		order = restrictEcOrder(fx.live, order)
		// the volume is unmounted and mounted again between some of the deletes
		reopen := map[int]bool{}
		nReopen := 0
		if len(order) > 1 {
			nReopen = rapid.IntRange(0, 3).Draw(t, "nReopen")
			for i := 0; i < nReopen; i++ {
				reopen[rapid.IntRange(1, len(order)-1).Draw(t, "reopenBefore")] = true
			}
		}
		runEcDeletes(t, fx, order, reopen, n <= 48, true)

		// each on a fresh copy: all keys of a small index, a sample of a large one
		var singles []uint64
		if n <= 10 {
			singles = allKeys(fx.live)
		} else {
			singles = []uint64{fx.live[0].key, fx.live[n-1].key, fx.live[n/2].key, fx.live[1].key}
			for i := 0; i < 4; i++ {
				singles = append(singles, fx.live[rapid.IntRange(0, n-1).Draw(t, "single")].key)
			}
		}
		if len(abs) > 0 {
			singles = append(singles, abs[rapid.IntRange(0, len(abs)-1).Draw(t, "singleAbsent")])
		}
		singles = restrictEcOrder(fx.live, singles)
		for si, k := range singles {
			f2 := &ecFixture{dir: vlib.TempDir(), live: fx.live, ecx0: fx.ecx0}
			f2.base = filepath.Join(f2.dir, "1")
			if fx.data != fx.dir {
				f2.data = filepath.Join(f2.dir, "data")
				os.MkdirAll(f2.data, 0755)
			}
			mustWrite(t, f2.base+".ecx", fx.ecx0)
			runEcDeletes(t, f2, []uint64{k}, nil, n <= 48, si == 0)
			os.RemoveAll(f2.dir)
		}

		classes := []string{"ecx-" + sizeClass(n), fmt.Sprintf("entry-size-%d", types.NeedleMapEntrySize)}
		if nAbs > 0 {
			classes = append(classes, "ecx-absent-delete")
		}
		if repeats > 0 {
			classes = append(classes, "ecx-repeated-delete")
		}
		if len(reopen) > 0 {
			classes = append(classes, "ecx-reopen-between-deletes")
		}
		if n > 0 && len(order) >= n {
			classes = append(classes, "ecx-all-deleted")
		}
		for _, r := range fx.live {
			if r.off/8 >= 1<<32 {
				classes = append(classes, "ecx-offset-above-32GiB")
				break
			}
		}
		vlib.Case(fmt.Sprintf("ecx %s delete %x reopen-before %v singles %x", briefFull(fx.live), order, sortedInts(reopen), singles), nonTrivial(fx.live, order) || nonTrivial(fx.live, singles), classes...)
	})
}

func sortedInts(m map[int]bool) []int {
	out := []int{}
	for i := range m {
		out = append(out, i)
	}
	sort.Ints(out)
	return out
}

func briefFull(rs []rec) string {
	var sb strings.Builder
	for _, r := range rs {
		fmt.Fprintf(&sb, "%x@%d/%d ", r.key, r.off/8, r.size)
	}
	return "[" + strings.TrimSpace(sb.String()) + "]"
}

// Bounded-exhaustive: for every n <= N (keys 10,20,...; distinct offsets/sizes), every present key and the
// absent keys between/around them deleted on a fresh copy, and every ordered pair of candidates cumulatively.
func TestPropEcxDeleteExhaustive(t *testing.T) {
	N := vlib.Pick(6, 14)
	item := 0
	for n := 0; n <= N; n++ {
		var hist []rec
		for i := 0; i < n; i++ {
			units := int64(1 + i*3)
			if types.OffsetSize == 5 && i%2 == 1 {
				units += 1 << 32
			}
			hist = append(hist, rec{uint64(10 * (i + 1)), units * 8, int32(100 + i)})
		}
		var cands []uint64
		cands = append(cands, 5)
		for i := 0; i < n; i++ {
			cands = append(cands, uint64(10*(i+1)), uint64(10*(i+1)+5))
		}
		var orders [][]uint64
		for _, a := range cands {
			orders = append(orders, []uint64{a})
		}
		for _, a := range cands {
			for _, b := range cands {
				if a != b {
					orders = append(orders, []uint64{a, b})
				}
			}
		}
		for _, order := range orders {
			item++
			if !vlib.ShardOwns(item) {
				continue
			}
			live := liveSet(hist)
			order2 := restrictEcOrder(live, order)
			fx := newEcFixture(t, hist)
			runEcDeletes(t, fx, order2, nil, true, len(order2) == 1 || item%3 == 0)
			os.RemoveAll(fx.dir)
			vlib.Case(fmt.Sprintf("ecx-exh n=%d delete %v", n, order2), nonTrivial(live, order2), "ecx-exhaustive")
			if len(order2) == 2 { // the same pair with an unmount/mount between the two deletes
				fx := newEcFixture(t, hist)
				runEcDeletes(t, fx, order2, map[int]bool{1: true}, true, true)
				os.RemoveAll(fx.dir)
				vlib.Case(fmt.Sprintf("ecx-exh n=%d delete %v reopen between", n, order2), nonTrivial(live, order2), "ecx-exhaustive-reopen")
			}
		}
	}
	vlib.Exhaustive(fmt.Sprintf("ecx-delete-n<=%d-single-and-ordered-pairs", N), true)
}

// ------------------------------------------------------------------ sorted-file needle map (.sdx)

func openSdx(t fataler, base string) (*storage.SortedFileNeedleMap, error) {
	f, err := os.OpenFile(base+".idx", os.O_RDWR, 0644) // as Volume.load does for a volume that can still delete
	if err != nil {
		t.Fatalf("open idx: %v", err)
	}
	return storage.NewSortedFileNeedleMap(base, f)
}

func checkSdxGets(t fataler, nm *storage.SortedFileNeedleMap, live []rec, deleted map[uint64]bool, probe []uint64, ctx string) {
	idx := map[uint64]rec{}
	for _, r := range live {
		idx[r.key] = r
	}
	for _, k := range probe {
		v, ok := nm.Get(types.NeedleId(k))
		r, present := idx[k]
		switch {
		case !present:
			if ok {
				t.Fatalf("%s: Get(%x) of an absent key = %+v, found", ctx, k, v)
			}
		case deleted[k]:
			if ok && !v.Size.IsDeleted() {
				t.Fatalf("%s: Get(%x) of a deleted key = (%d,%d), still live", ctx, k, v.Offset.ToActualOffset(), v.Size)
			}
		default:
			if !ok || v.Offset.ToActualOffset() != r.off || int32(v.Size) != r.size || uint64(v.Key) != k {
				t.Fatalf("%s: Get(%x) = %+v,%v, want live (%d,%d)", ctx, k, v, ok, r.off, r.size)
			}
		}
	}
}

func sdxKnown() bool { return vlib.Known(keySdxHandle) || vlib.Known(keySdxIdxZero) }

// reopen[i] closes the map and loads it again (as a volume reload does) before delete i.
func runSdxDeletes(t fataler, hist []rec, order []uint64, delOffUnits []int64, reopen map[int]bool, fullProbe bool) {
	dir := vlib.TempDir()
	defer os.RemoveAll(dir)
	base := filepath.Join(dir, "1")
	live := liveSet(hist)
	idx0 := idxBytes(hist)
	mustWrite(t, base+".idx", idx0)
	nm, err := openSdx(t, base)
	if err != nil {
		t.Fatalf("NewSortedFileNeedleMap: %v", err)
	}
	closed := false
	defer func() {
		if !closed {
			nm.Close()
		}
	}()
	present := map[uint64]bool{}
	for _, r := range live {
		present[r.key] = true
	}
	deleted := map[uint64]bool{}
	ctx0 := fmt.Sprintf("sorted-file map over %d entries %v", len(live), briefRecs(live))
	checkSdxGets(t, nm, live, deleted, append(allKeys(live), order...), ctx0+" (fresh)")
	wantIdx := append([]byte{}, idx0...)
	for i, k := range order {
		ctx := fmt.Sprintf("%s, deletes so far %x", ctx0, order[:i+1])
		off := types.ToOffset(delOffUnits[i] * 8)
		if reopen[i] {
			nm.Close()
			if nm, err = openSdx(t, base); err != nil {
				t.Fatalf("%s: reload before Delete(%x): %v", ctx, k, err)
			}
			// depending on the file times the .sdx was reused (tombstones in place) or regenerated from the
			// .idx (deleted needles dropped); both are a correct index of the same live set
			got := mustRead(t, base+".sdx")
			if !bytes.Equal(got, sortedBytes(live, deleted)) {
				if !bytes.Equal(got, sortedBytes(minus(live, deleted), nil)) {
					t.Fatalf("%s: after a reload the .sdx is neither the marked nor the regenerated index: %s", ctx, briefIdx(got))
				}
				live = minus(live, deleted)
				for d := range deleted {
					delete(present, d)
				}
				deleted = map[uint64]bool{}
			}
			checkSdxGets(t, nm, live, deleted, append(allKeys(live), order...), ctx+" (reloaded before this delete)")
		}
		if err := nm.Delete(types.NeedleId(k), off); err != nil {
			t.Fatalf("%s: Delete(%x): %v", ctx, k, err)
		}
		if present[k] && !deleted[k] {
			deleted[k] = true
			wantIdx = append(wantIdx, needle_map.ToBytes(types.NeedleId(k), off, types.TombstoneFileSize)...)
		}
		got := mustRead(t, base+".sdx")
		if want := sortedBytes(live, deleted); !bytes.Equal(got, want) {
			t.Fatalf("%s: after Delete(%x) the .sdx is wrong:%s", ctx, k, describeDiff(live, want, got))
		}
		probe := neighbours(live, k)
		if fullProbe {
			probe = append(allKeys(live), k)
		}
		checkSdxGets(t, nm, live, deleted, probe, ctx)
		// the .idx is the deletion journal of a plain volume: the original entries followed by one tombstone per
		// delete (a repeated tombstone for an already deleted needle is tolerated, as for the .ecj)
		if got := mustRead(t, base+".idx"); !bytes.Equal(dedupTail(got, len(idx0)), wantIdx) {
			t.Fatalf("%s: after Delete(%x) the .idx holds %s, want the %d original entries followed by the tombstones %s", ctx, k, briefIdx(got), len(hist), briefIdx(wantIdx[len(idx0):]))
		}
	}
	nm.Close()
	closed = true
	ctx := fmt.Sprintf("%s, deletes %x", ctx0, order)
	wantLive := minus(live, deleted)
	if got := liveFromIdx(t, base+".idx"); !sameRecs(got, wantLive) {
		t.Fatalf("%s: live set replayed from the .idx = %v, want %v", ctx, briefRecs(got), briefRecs(wantLive))
	}
	// reload (the .sdx is reused or regenerated depending on file times; both must agree with the model)
	nm2, err := openSdx(t, base)
	if err != nil {
		t.Fatalf("%s: reload: %v", ctx, err)
	}
	checkSdxGets(t, nm2, live, deleted, append(allKeys(live), order...), ctx+" (reloaded)")
	nm2.Close()
	// regenerate from the .idx alone
	os.Remove(base + ".sdx")
	nm3, err := openSdx(t, base)
	if err != nil {
		t.Fatalf("%s: reload without .sdx: %v", ctx, err)
	}
	checkSdxGets(t, nm3, wantLive, map[uint64]bool{}, append(allKeys(live), order...), ctx+" (regenerated)")
	nm3.Close()
}

// dedupTail drops, from the entries after the first n bytes, repeated tombstones of a needle already tombstoned in the tail.
func dedupTail(b []byte, n int) []byte {
	es := types.NeedleMapEntrySize
	if len(b) < n || (len(b)-n)%es != 0 {
		return b
	}
	out := append([]byte{}, b[:n]...)
	seen := map[string]bool{}
	for i := n; i+es <= len(b); i += es {
		e := string(b[i : i+es])
		if _, _, sz := idxEntry(b[i : i+es]); sz == -1 {
			e = e[:8] // a tombstone is identified by its needle id
		}
		if !seen[e] {
			seen[e] = true
			out = append(out, b[i:i+es]...)
		}
	}
	return out
}

func briefIdx(b []byte) string {
	es := types.NeedleMapEntrySize
	var sb strings.Builder
	n := len(b) / es
	for i := 0; i < n; i++ {
		if i >= 6 && i < n-6 {
			if i == 6 {
				fmt.Fprintf(&sb, "…(%d more) ", n-12)
			}
			continue
		}
		k, o, s := idxEntry(b[i*es : (i+1)*es])
		fmt.Fprintf(&sb, "%x@%d/%d ", k, o/8, s)
	}
	return "[" + strings.TrimSpace(sb.String()) + "]"
}

// restrictSdxOrder drops deletes of live keys while the sorted-file map's listed findings are open.
func restrictSdxOrder(live []rec, order []uint64) []uint64 {
	if !sdxKnown() {
		return order
	}
	var out []uint64
	for _, k := range order {
		if pos(live, k) >= 0 {
			if vlib.Known(keySdxHandle) {
				vlib.Excluded(keySdxHandle)
			}
			if vlib.Known(keySdxIdxZero) {
				vlib.Excluded(keySdxIdxZero)
			}
			continue
		}
		out = append(out, k)
	}
	return out
}

func TestPropSortedFileMapDelete(t *testing.T) {
	vlib.Check(t, 240, 3000, func(t *rapid.T) {
		hist := genHistory(t)
		live := liveSet(hist)
		n := len(live)
		abs := absentCandidates(live, hist)
		var order []uint64
		if n > 0 {
			perm := rapid.Permutation(seq(n)).Draw(t, "perm")
			cnt := rapid.OneOf(rapid.IntRange(0, n), rapid.Just(n), rapid.IntRange(0, 6)).Draw(t, "nDeletes")
			if cnt > n {
				cnt = n
			}
			for _, i := range perm[:cnt] {
				order = append(order, live[i].key)
			}
		}
		nAbs := rapid.IntRange(0, 4).Draw(t, "nAbsent")
		for i := 0; i < nAbs && len(abs) > 0; i++ {
			k := rapid.SampledFrom(abs).Draw(t, "absent")
			at := rapid.IntRange(0, len(order)).Draw(t, "absentAt")
			order = append(order[:at], append([]uint64{k}, order[at:]...)...)
		}
		repeats := 0
		if len(order) > 0 {
			repeats = rapid.IntRange(0, 2).Draw(t, "nRepeat")
			for i := 0; i < repeats; i++ {
				order = append(order, order[rapid.IntRange(0, len(order)-1).Draw(t, "repeatOf")])
			}
		}
		order = restrictSdxOrder(live, order)
		offs := make([]int64, len(order))
		for i := range offs {
			offs[i] = genOffsetUnits().Draw(t, "deleteOffset")
		}
		reopen := map[int]bool{}
		if len(order) > 1 {
			for i, m := 0, rapid.IntRange(0, 3).Draw(t, "nReopen"); i < m; i++ {
				reopen[rapid.IntRange(1, len(order)-1).Draw(t, "reopenBefore")] = true
			}
		}
		runSdxDeletes(t, hist, order, offs, reopen, n <= 48)
		classes := []string{"sdx-" + sizeClass(n), fmt.Sprintf("entry-size-%d", types.NeedleMapEntrySize)}
		if nAbs > 0 {
			classes = append(classes, "sdx-absent-delete")
		}
		if repeats > 0 {
			classes = append(classes, "sdx-repeated-delete")
		}
		if len(reopen) > 0 {
			classes = append(classes, "sdx-reload-between-deletes")
		}
		vlib.Case(fmt.Sprintf("sdx %v delete %x at %v reload-before %v", hist, order, offs, sortedInts(reopen)), nonTrivial(live, order), classes...)
	})
}

// ------------------------------------------------------------------ finding probes

func probeHist() []rec {
	return []rec{{10, 8, 100}, {20, 16, 101}, {30, 24, 102}, {40, 32, 103}}
}

func TestFindingEcxMarkOffset(t *testing.T) {
	// four entries; delete the third one (position 2)
	fx := newEcFixture(t, probeHist())
	defer os.RemoveAll(fx.dir)
	ev := openEc(t, fx)
	err := ev.DeleteNeedleFromEcx(types.NeedleId(30))
	_, size30, _ := ev.FindNeedleFromEcx(types.NeedleId(30))
	ev.Close()
	got := mustRead(t, fx.base+".ecx")
	want := sortedBytes(fx.live, map[uint64]bool{30: true})
	bad := err != nil || !bytes.Equal(got, want) || !size30.IsDeleted()
	vlib.Finding(t, keyEcxOffset, bad, fmt.Sprintf("entry size %d: sorted index [10 20 30 40], DeleteNeedleFromEcx(30): err=%v, size(30)=%d afterwards;%s", types.NeedleMapEntrySize, err, size30, describeDiff(fx.live, want, got)))
}

func TestFindingSdxDelete(t *testing.T) {
	dir := vlib.TempDir()
	defer os.RemoveAll(dir)
	base := filepath.Join(dir, "1")
	hist := probeHist()
	idx0 := idxBytes(hist)
	mustWrite(t, base+".idx", idx0)
	nm, err := openSdx(t, base)
	if err != nil {
		t.Fatalf("NewSortedFileNeedleMap: %v", err)
	}
	derr := nm.Delete(types.NeedleId(10), types.ToOffset(800)) // first entry: independent of the 5-byte offset finding
	v, ok := nm.Get(types.NeedleId(10))
	nm.Close()
	stillLive := ok && !v.Size.IsDeleted()
	vlib.Finding(t, keySdxHandle, derr != nil || stillLive,
		fmt.Sprintf("SortedFileNeedleMap over [10 20 30 40] (.idx opened read-write as Volume.load does): Delete(10) returns %v; Get(10) afterwards live=%v", derr, stillLive))
	got := mustRead(t, base+".idx")
	want := append(append([]byte{}, idx0...), needle_map.ToBytes(10, types.ToOffset(800), types.TombstoneFileSize)...)
	vlib.Finding(t, keySdxIdxZero, !bytes.Equal(got, want),
		fmt.Sprintf("SortedFileNeedleMap.Delete(10) must append a tombstone to the .idx; .idx afterwards %s, want %s", briefIdx(got), briefIdx(want)))
}
