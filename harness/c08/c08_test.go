// C08 Persistent identifiers and headers round-trip exactly.
package c08

import (
	"fmt"
	"math/big"
	"os"
	"path/filepath"
	"strings"
	"testing"

	"github.com/chrislusf/seaweedfs/weed/pb/master_pb"
	"github.com/chrislusf/seaweedfs/weed/storage/backend"
	"github.com/chrislusf/seaweedfs/weed/storage/idx"
	"github.com/chrislusf/seaweedfs/weed/storage/needle"
	"github.com/chrislusf/seaweedfs/weed/storage/needle_map"
	"github.com/chrislusf/seaweedfs/weed/storage/super_block"
	"github.com/chrislusf/seaweedfs/weed/storage/types"
	"github.com/golang/protobuf/proto"
	"pgregory.net/rapid"

	"verifharness/vlib"
)

func TestMain(m *testing.M) {
	vlib.Rule("C08: exhaustive replica placements (27 strings, 256 bytes) and TTL count/unit pairs (1530+empty); rapid-generated file ids, super blocks (v1-3, with/without extra), index entries, and malformed strings. Non-trivial = a value with non-default content in >=2 fields, or a malformed input. Distinct = distinct canonical description.")
	vlib.Main(m)
}

// ----------------------------------------------------------------- placements

func TestPropReplicaPlacementExhaustive(t *testing.T) {
	vlib.Shard0Only(t)
	for x := 0; x <= 2; x++ {
		for y := 0; y <= 2; y++ {
			for z := 0; z <= 2; z++ {
				s := fmt.Sprintf("%d%d%d", x, y, z)
				rp, err := super_block.NewReplicaPlacementFromString(s)
				if err != nil {
					t.Fatalf("placement %q rejected: %v", s, err)
				}
				if rp.DiffDataCenterCount != x || rp.DiffRackCount != y || rp.SameRackCount != z {
					t.Fatalf("placement %q decoded to %+v", s, rp)
				}
				if rp.String() != s {
					t.Fatalf("placement %q re-encodes to %q", s, rp.String())
				}
				if rp.GetCopyCount() != 1+x+y+z {
					t.Fatalf("placement %q copy count %d", s, rp.GetCopyCount())
				}
				b := rp.Byte()
				rp2, err := super_block.NewReplicaPlacementFromByte(b)
				if err != nil || *rp2 != *rp {
					t.Fatalf("placement %q byte %d decodes to %+v, %v", s, b, rp2, err)
				}
				vlib.Case("rp:"+s, x+y+z > 0 && (x > 0 && y > 0 || y > 0 && z > 0 || x > 0 && z > 0), "placement")
			}
		}
	}
	// every byte: error, or a value that encodes back to the same byte
	for b := 0; b < 256; b++ {
		rp, err := super_block.NewReplicaPlacementFromByte(byte(b))
		if err == nil && int(rp.Byte()) != b {
			t.Fatalf("placement byte %d silently decoded to %+v (byte %d)", b, rp, rp.Byte())
		}
		vlib.Case(fmt.Sprintf("rpbyte:%d", b), err != nil, "placement-byte")
	}
	vlib.Exhaustive("replica-placements", true)
}

func TestPropReplicaPlacementMalformed(t *testing.T) {
	vlib.Check(t, 2000, 20000, func(t *rapid.T) {
		// three characters, at least one of which is not in '0'..'2'
		s := rapid.StringOfN(rapid.RuneFrom([]rune("0123456789a-:/ x")), 3, 3, 3).Draw(t, "s")
		valid := true
		for _, c := range s {
			if c < '0' || c > '2' {
				valid = false
			}
		}
		rp, err := super_block.NewReplicaPlacementFromString(s)
		if valid {
			if err != nil || rp.String() != s {
				t.Fatalf("valid placement %q -> %+v, %v", s, rp, err)
			}
		} else if err == nil {
			t.Fatalf("malformed placement %q accepted as %s", s, rp.String())
		}
		vlib.Case("rpmal:"+s, !valid, "placement-malformed")
	})
}

// ----------------------------------------------------------------- TTL

var ttlUnits = []struct {
	c   byte
	u   byte
	min uint32
}{{'m', needle.Minute, 1}, {'h', needle.Hour, 60}, {'d', needle.Day, 1440}, {'w', needle.Week, 10080}, {'M', needle.Month, 43200}, {'y', needle.Year, 525600}}

func TestPropTTLExhaustive(t *testing.T) {
	vlib.Shard0Only(t)
	for _, u := range ttlUnits {
		for c := 1; c <= 255; c++ {
			s := fmt.Sprintf("%d%c", c, u.c)
			v, err := needle.ReadTTL(s)
			if err != nil {
				t.Fatalf("ttl %q rejected: %v", s, err)
			}
			if v.Count != byte(c) || v.Unit != u.u {
				t.Fatalf("ttl %q decoded to %+v", s, v)
			}
			if v.String() != s {
				t.Fatalf("ttl %q re-encodes to %q", s, v.String())
			}
			if v.Minutes() != uint32(c)*u.min {
				t.Fatalf("ttl %q minutes %d", s, v.Minutes())
			}
			b := make([]byte, 2)
			v.ToBytes(b)
			if w := needle.LoadTTLFromBytes(b); *w != *v {
				t.Fatalf("ttl %q bytes %v decode to %+v", s, b, w)
			}
			if w := needle.LoadTTLFromUint32(v.ToUint32()); *w != *v {
				t.Fatalf("ttl %q uint32 %d decodes to %+v", s, v.ToUint32(), w)
			}
			vlib.Case("ttl:"+s, c > 1 && u.u != needle.Minute, "ttl")
		}
	}
	// empty
	v, err := needle.ReadTTL("")
	if err != nil || v.String() != "" || v.ToUint32() != 0 || v.Minutes() != 0 {
		t.Fatalf("empty ttl: %+v %v", v, err)
	}
	b := make([]byte, 2)
	v.ToBytes(b)
	if w := needle.LoadTTLFromBytes(b); w.String() != "" {
		t.Fatalf("empty ttl bytes decode to %+v", w)
	}
	if w := needle.LoadTTLFromUint32(0); w.String() != "" {
		t.Fatalf("uint32 0 decodes to %+v", w)
	}
	// bare number = minutes (documented default unit)
	for c := 1; c <= 255; c++ {
		v, err := needle.ReadTTL(fmt.Sprint(c))
		if err != nil || v.Minutes() != uint32(c) {
			t.Fatalf("ttl %d -> %+v %v", c, v, err)
		}
	}
	vlib.Exhaustive("ttl-count-unit", true)
}

// denotedMinutes is the reference reading of a TTL string: decimal count
// followed by an optional unit; ok=false when s is outside that grammar or the
// count does not fit the one-byte on-disk count.
func denotedMinutes(s string) (minutes uint64, ok bool) {
	if s == "" {
		return 0, true
	}
	unit := s[len(s)-1]
	digits := s[:len(s)-1]
	mult := uint64(0)
	if unit >= '0' && unit <= '9' {
		digits, mult = s, 1
	} else {
		for _, u := range ttlUnits {
			if u.c == unit {
				mult = uint64(u.min)
			}
		}
	}
	if mult == 0 || digits == "" {
		return 0, false
	}
	// strconv accepts a sign; "+5m" denotes 5 minutes and "-0" denotes 0, so a
	// decoder that maps them to exactly those values is not aliasing anything.
	neg := false
	if digits[0] == '+' || digits[0] == '-' {
		neg = digits[0] == '-'
		digits = digits[1:]
		if digits == "" {
			return 0, false
		}
	}
	n := uint64(0)
	defer func() {
		if neg && n != 0 {
			minutes, ok = 0, false
		}
	}()
	for _, c := range digits {
		if c < '0' || c > '9' {
			return 0, false
		}
		n = n*10 + uint64(c-'0')
		if n > 1<<40 {
			return 0, false
		}
	}
	if n > 255 {
		return 0, false
	}
	return n * mult, true
}

func genTTLString() *rapid.Generator[string] {
	return rapid.OneOf(
		rapid.Custom(func(t *rapid.T) string { // overlong counts
			c := rapid.OneOf(rapid.IntRange(256, 99999), rapid.SampledFrom([]int{256, 257, 300, 511, 512, 1000, 65535, 65536})).Draw(t, "count")
			u := rapid.SampledFrom([]string{"m", "h", "d", "w", "M", "y", ""}).Draw(t, "unit")
			return fmt.Sprintf("%d%s", c, u)
		}),
		rapid.Custom(func(t *rapid.T) string { // unknown units
			c := rapid.IntRange(1, 255).Draw(t, "count")
			u := rapid.SampledFrom([]string{"s", "x", "D", "H", "Y", "W", "ms", "mm", " ", "µ"}).Draw(t, "unit")
			return fmt.Sprintf("%d%s", c, u)
		}),
		rapid.Custom(func(t *rapid.T) string { // signs and junk
			return rapid.SampledFrom([]string{"-5m", "+5m", "-1", "5 m", " 5m", "m", "h", "0x10m", "1e2m", "1.5h", "٣m"}).Draw(t, "junk")
		}),
		rapid.StringOfN(rapid.RuneFrom([]rune("0123456789mhdwMy-+ sx")), 1, 6, 6),
	)
}

func TestPropTTLMalformed(t *testing.T) {
	vlib.Check(t, 4000, 60000, func(t *rapid.T) {
		s := genTTLString().Draw(t, "s")
		want, valid := denotedMinutes(s)
		class := "ttl-valid-form"
		if !valid {
			class = "ttl-malformed"
			if n := strings.TrimRight(s, "mhdwMy"); n != "" && strings.Trim(n, "0123456789+-") == "" && len(s)-len(n) <= 1 {
				class = "ttl-count-overflow"
				if vlib.Known("C08-ttl-count-overflow") {
					vlib.Excluded("C08-ttl-count-overflow")
					t.Skip("listed finding")
				}
			} else if vlib.Known("C08-ttl-unknown-unit") {
				vlib.Excluded("C08-ttl-unknown-unit")
				t.Skip("listed finding")
			}
		}
		v, err := needle.ReadTTL(s)
		if valid {
			if err != nil {
				t.Fatalf("valid ttl %q rejected: %v", s, err)
			}
			if uint64(v.Minutes()) != want {
				t.Fatalf("ttl %q decoded to %+v = %d minutes, denotes %d", s, v, v.Minutes(), want)
			}
		} else if err == nil {
			t.Fatalf("malformed ttl %q silently decoded to %+v (%q)", s, v, v.String())
		}
		vlib.Case("ttlmal:"+s, !valid, class)
	})
}

func TestFindingTTL(t *testing.T) {
	v, err := needle.ReadTTL("300m")
	vlib.Finding(t, "C08-ttl-count-overflow", err == nil, fmt.Sprintf("ReadTTL(\"300m\") = %+v (%q), err=%v", v, v.String(), err))
	v, err = needle.ReadTTL("5x")
	vlib.Finding(t, "C08-ttl-unknown-unit", err == nil, fmt.Sprintf("ReadTTL(\"5x\") = %+v (%q), err=%v", v, v.String(), err))
}

// ----------------------------------------------------------------- file ids

func genVid() *rapid.Generator[uint32] {
	return rapid.OneOf(rapid.Uint32(), rapid.SampledFrom([]uint32{0, 1, 9, 10, 255, 256, 65535, 65536, 1<<31 - 1, 1 << 31, 1<<32 - 1}))
}
func genKey() *rapid.Generator[uint64] {
	return rapid.OneOf(rapid.Uint64Min(1), rapid.Uint64Range(1, 300),
		rapid.SampledFrom([]uint64{1, 15, 16, 255, 256, 1<<32 - 1, 1 << 32, 1 << 40, 1<<56 - 1, 1 << 56, 1<<63 - 1, 1 << 63, 1<<64 - 1}))
}
func genCookie() *rapid.Generator[uint32] {
	return rapid.OneOf(rapid.Uint32(), rapid.SampledFrom([]uint32{0, 1, 15, 16, 0x0fffffff, 0x10000000, 1<<32 - 1}))
}

func TestPropFileIdRoundTrip(t *testing.T) {
	vlib.Check(t, 20000, 400000, func(t *rapid.T) {
		vid, key, cookie := genVid().Draw(t, "vid"), genKey().Draw(t, "key"), genCookie().Draw(t, "cookie")
		f := needle.NewFileId(needle.VolumeId(vid), key, cookie)
		s := f.String()
		g, err := needle.ParseFileIdFromString(s)
		if err != nil {
			t.Fatalf("fid %q (vid=%d key=%x cookie=%x) rejected: %v", s, vid, key, cookie, err)
		}
		if *g != *f {
			t.Fatalf("fid %q decodes to %+v, want %+v", s, g, f)
		}
		// the key is printed as whole bytes with leading zero bytes stripped
		hexKey := fmt.Sprintf("%x", key)
		if len(hexKey)%2 == 1 {
			hexKey = "0" + hexKey
		}
		want := fmt.Sprintf("%d,%s%08x", vid, hexKey, cookie)
		if s != want {
			t.Fatalf("fid (vid=%d key=%x cookie=%x) encodes to %q, want %q", vid, key, cookie, s, want)
		}
		if f.GetNeedleIdCookie() != fmt.Sprintf("%s%08x", hexKey, cookie) {
			t.Fatalf("GetNeedleIdCookie %q", f.GetNeedleIdCookie())
		}
		// the path form used by the volume server, with and without a delta suffix
		n := new(needle.Needle)
		if err := n.ParsePath(f.GetNeedleIdCookie()); err != nil || uint64(n.Id) != key || uint32(n.Cookie) != cookie {
			t.Fatalf("ParsePath(%q) -> id=%x cookie=%x err=%v", f.GetNeedleIdCookie(), n.Id, n.Cookie, err)
		}
		delta := rapid.Uint64Range(0, 1000).Draw(t, "delta")
		if key <= 1<<63 {
			n2 := new(needle.Needle)
			p := fmt.Sprintf("%s_%d", f.GetNeedleIdCookie(), delta)
			if err := n2.ParsePath(p); err != nil || uint64(n2.Id) != key+delta || uint32(n2.Cookie) != cookie {
				t.Fatalf("ParsePath(%q) -> id=%x cookie=%x err=%v", p, n2.Id, n2.Cookie, err)
			}
		}
		// leading zeros and upper case are alternative spellings of the same id
		alt := fmt.Sprintf("%d,%016X%08X", vid, key, cookie)
		if g2, err := needle.ParseFileIdFromString(alt); err != nil || *g2 != *f {
			t.Fatalf("fid %q decodes to %+v, %v; want %+v", alt, g2, err, f)
		}
		vlib.Case(fmt.Sprintf("fid:%s", s), vid > 1 && key > 255, "fid")
	})
}

// refParseFid is an independent reading of the file id grammar
// <decimal volume id < 2^32> , <1..16 hex key digits> <8 hex cookie digits>.
func refParseFid(s string) (vid uint64, key uint64, cookie uint32, ok bool) {
	i := strings.Index(s, ",")
	if i <= 0 {
		return
	}
	v, kc := s[:i], s[i+1:]
	bv := new(big.Int)
	for _, c := range v {
		if c < '0' || c > '9' {
			return
		}
	}
	bv.SetString(v, 10)
	if bv.BitLen() > 32 {
		return
	}
	if len(kc) <= 8 || len(kc) > 24 {
		return
	}
	for _, c := range kc {
		if !(c >= '0' && c <= '9' || c >= 'a' && c <= 'f' || c >= 'A' && c <= 'F') {
			return
		}
	}
	bk := new(big.Int)
	bk.SetString(kc[:len(kc)-8], 16)
	bc := new(big.Int)
	bc.SetString(kc[len(kc)-8:], 16)
	return bv.Uint64(), bk.Uint64(), uint32(bc.Uint64()), true
}

func genFidString() *rapid.Generator[string] {
	hex := rapid.StringOfN(rapid.RuneFrom([]rune("0123456789abcdefABCDEF")), 0, 30, 30)
	return rapid.OneOf(
		rapid.Custom(func(t *rapid.T) string { // volume id beyond 32 bits
			v := new(big.Int).SetUint64(rapid.OneOf(rapid.Uint64Range(1<<32, 1<<33), rapid.Uint64Min(1<<32)).Draw(t, "vid"))
			if rapid.Bool().Draw(t, "huge") {
				v.Lsh(v, 40)
			}
			return fmt.Sprintf("%s,%x%08x", v.String(), genKey().Draw(t, "key"), genCookie().Draw(t, "cookie"))
		}),
		rapid.Custom(func(t *rapid.T) string { // arbitrary hex length
			return fmt.Sprintf("%d,%s", genVid().Draw(t, "vid"), hex.Draw(t, "kc"))
		}),
		rapid.Custom(func(t *rapid.T) string { // junk in any part
			v := rapid.StringOfN(rapid.RuneFrom([]rune("0123456789-+ ax")), 0, 12, 12).Draw(t, "v")
			kc := rapid.StringOfN(rapid.RuneFrom([]rune("0123456789abcdefg-+_ xX")), 0, 26, 26).Draw(t, "kc")
			sep := rapid.SampledFrom([]string{",", "", "/", ",,"}).Draw(t, "sep")
			return v + sep + kc
		}),
	)
}

func TestPropFileIdMalformed(t *testing.T) {
	vlib.Check(t, 20000, 400000, func(t *rapid.T) {
		s := genFidString().Draw(t, "s")
		rv, rk, rc, valid := refParseFid(s)
		class := "fid-valid-form"
		if !valid {
			class = "fid-malformed"
			if i := strings.Index(s, ","); i > 0 && strings.Trim(s[:i], "0123456789") == "" && len(strings.TrimLeft(s[:i], "0")) >= 10 {
				class = "fid-volume-id-overflow"
				if vlib.Known("C08-volume-id-overflow") {
					vlib.Excluded("C08-volume-id-overflow")
					t.Skip("listed finding")
				}
			}
		}
		g, err := needle.ParseFileIdFromString(s)
		if valid {
			if err != nil {
				t.Fatalf("valid fid %q rejected: %v", s, err)
			}
			if uint64(g.VolumeId) != rv || uint64(g.Key) != rk || uint32(g.Cookie) != rc {
				t.Fatalf("fid %q decoded to %+v, denotes vid=%d key=%x cookie=%x", s, g, rv, rk, rc)
			}
		} else if err == nil {
			t.Fatalf("malformed fid %q silently decoded to %s", s, g.String())
		}
		vlib.Case("fidmal:"+s, !valid, class)
	})
}

func TestFindingVolumeId(t *testing.T) {
	g, err := needle.ParseFileIdFromString("4294967297,01637037d6")
	d := ""
	if g != nil {
		d = g.String()
	}
	vlib.Finding(t, "C08-volume-id-overflow", err == nil, fmt.Sprintf("ParseFileIdFromString(\"4294967297,01637037d6\") = %q err=%v", d, err))
}

// ----------------------------------------------------------------- super block

func genTTL() *rapid.Generator[*needle.TTL] {
	return rapid.Custom(func(t *rapid.T) *needle.TTL {
		if rapid.IntRange(0, 3).Draw(t, "ttlNone") == 0 {
			return needle.EMPTY_TTL
		}
		return &needle.TTL{Count: byte(rapid.IntRange(1, 255).Draw(t, "count")), Unit: byte(rapid.IntRange(1, 6).Draw(t, "unit"))}
	})
}

func genExtra() *rapid.Generator[*master_pb.SuperBlockExtra] {
	return rapid.Custom(func(t *rapid.T) *master_pb.SuperBlockExtra {
		n := rapid.OneOf(rapid.IntRange(0, 8), rapid.SampledFrom([]int{0, 1, 100, 5000})).Draw(t, "nVolumeIds")
		ids := make([]uint32, n)
		for i := range ids {
			ids[i] = uint32(i*7 + 1)
		}
		return &master_pb.SuperBlockExtra{ErasureCoding: &master_pb.SuperBlockExtra_ErasureCoding{
			Data:      rapid.Uint32Range(0, 32).Draw(t, "data"),
			Parity:    rapid.Uint32Range(0, 32).Draw(t, "parity"),
			VolumeIds: ids,
		}}
	})
}

func readBack(t *rapid.T, raw []byte) (super_block.SuperBlock, error) {
	dir := vlib.TempDir()
	defer os.RemoveAll(dir)
	p := filepath.Join(dir, "1.dat")
	if err := os.WriteFile(p, raw, 0644); err != nil {
		t.Fatalf("write: %v", err)
	}
	f, err := os.Open(p)
	if err != nil {
		t.Fatalf("open: %v", err)
	}
	df := backend.NewDiskFile(f)
	defer df.Close()
	return super_block.ReadSuperBlock(df)
}

func TestPropSuperBlockRoundTrip(t *testing.T) {
	vlib.Check(t, 3000, 40000, func(t *rapid.T) {
		ver := needle.Version(rapid.IntRange(1, 3).Draw(t, "version"))
		rpb := rapid.SampledFrom([]int{0, 1, 2, 10, 11, 12, 20, 21, 22, 100, 101, 102, 110, 111, 112, 120, 121, 122, 200, 201, 202, 210, 211, 212, 220, 221, 222}).Draw(t, "rp")
		rp, _ := super_block.NewReplicaPlacementFromByte(byte(rpb))
		ttl := genTTL().Draw(t, "ttl")
		rev := rapid.OneOf(rapid.Uint16(), rapid.SampledFrom([]uint16{0, 1, 255, 256, 65535})).Draw(t, "rev")
		sb := super_block.SuperBlock{Version: ver, ReplicaPlacement: rp, Ttl: ttl, CompactionRevision: rev}
		withExtra := ver >= 2 && rapid.Bool().Draw(t, "withExtra")
		if withExtra && vlib.Known("C08-superblock-extra-not-read") {
			vlib.Excluded("C08-superblock-extra-not-read")
			withExtra = false
		}
		if withExtra {
			sb.Extra = genExtra().Draw(t, "extra")
		}
		raw := sb.Bytes()
		if len(raw) != sb.BlockSize() {
			t.Fatalf("Bytes() has %d bytes, BlockSize() says %d", len(raw), sb.BlockSize())
		}
		// a volume file continues with needle records after the super block
		tail := rapid.SliceOfN(rapid.Byte(), 0, 64).Draw(t, "tail")
		got, err := readBack(t, append(append([]byte{}, raw...), tail...))
		if err != nil {
			t.Fatalf("super block %+v (extra=%v) does not read back: %v", sb, sb.Extra, err)
		}
		if got.Version != sb.Version || *got.ReplicaPlacement != *sb.ReplicaPlacement || got.Ttl.String() != sb.Ttl.String() ||
			got.Ttl.ToUint32() != sb.Ttl.ToUint32() || got.CompactionRevision != sb.CompactionRevision || got.ExtraSize != sb.ExtraSize {
			t.Fatalf("super block %+v read back as %+v", sb, got)
		}
		if got.BlockSize() != len(raw) {
			t.Fatalf("read-back BlockSize %d, wrote %d", got.BlockSize(), len(raw))
		}
		if withExtra && sb.ExtraSize > 0 {
			if got.Extra == nil || !proto.Equal(got.Extra, sb.Extra) {
				t.Fatalf("super block extra %v read back as %v", sb.Extra, got.Extra)
			}
		}
		// and re-encoding the decoded block gives the same bytes
		if string(got.Bytes()) != string(raw) {
			t.Fatalf("decode/encode changed the bytes: %x -> %x", raw, got.Bytes())
		}
		nt := 0
		if rpb != 0 {
			nt++
		}
		if ttl.Count != 0 {
			nt++
		}
		if rev != 0 {
			nt++
		}
		if withExtra {
			nt++
		}
		cls := "superblock"
		if withExtra {
			cls = "superblock-extra"
		}
		vlib.Case(fmt.Sprintf("sb:v%d rp%03d ttl%s rev%d extra=%v", ver, rpb, ttl.String(), rev, sb.Extra), nt >= 2, cls)
	})
}

func TestPropSuperBlockTruncated(t *testing.T) {
	vlib.Check(t, 1000, 10000, func(t *rapid.T) {
		rp, _ := super_block.NewReplicaPlacementFromByte(byte(rapid.SampledFrom([]int{0, 1, 10, 100, 222}).Draw(t, "rp")))
		sb := super_block.SuperBlock{Version: needle.Version(rapid.IntRange(1, 3).Draw(t, "version")), ReplicaPlacement: rp, Ttl: genTTL().Draw(t, "ttl")}
		raw := sb.Bytes()
		cut := rapid.IntRange(0, 7).Draw(t, "cut")
		_, err := readBack(t, raw[:cut])
		if err == nil {
			t.Fatalf("super block truncated to %d bytes accepted", cut)
		}
		// an invalid placement byte must be rejected, not mapped to some placement
		bad := append([]byte{}, raw...)
		bad[1] = byte(rapid.SampledFrom([]int{3, 13, 23, 30, 123, 223, 230, 255}).Draw(t, "badrp"))
		if got, err := readBack(t, bad); err == nil {
			t.Fatalf("placement byte %d accepted as %s", bad[1], got.ReplicaPlacement.String())
		}
		vlib.Case(fmt.Sprintf("sbtrunc:%d/%d", cut, bad[1]), true, "superblock-malformed")
	})
}

func TestFindingSuperBlockExtra(t *testing.T) {
	rp, _ := super_block.NewReplicaPlacementFromString("001")
	sb := super_block.SuperBlock{Version: needle.Version3, ReplicaPlacement: rp, Ttl: needle.EMPTY_TTL,
		Extra: &master_pb.SuperBlockExtra{ErasureCoding: &master_pb.SuperBlockExtra_ErasureCoding{Data: 10, Parity: 4, VolumeIds: []uint32{7}}}}
	raw := sb.Bytes()
	dir := vlib.TempDir()
	defer os.RemoveAll(dir)
	p := filepath.Join(dir, "1.dat")
	os.WriteFile(p, raw, 0644)
	f, _ := os.Open(p)
	df := backend.NewDiskFile(f)
	defer df.Close()
	got, err := super_block.ReadSuperBlock(df)
	bad := err != nil || got.Extra == nil || !proto.Equal(got.Extra, sb.Extra)
	vlib.Finding(t, "C08-superblock-extra-not-read", bad, fmt.Sprintf("super block with extra %v reads back as %v, err=%v", sb.Extra, got.Extra, err))
}

// ----------------------------------------------------------------- index entries

func TestPropIndexEntryRoundTrip(t *testing.T) {
	maxUnits := int64(types.MaxPossibleVolumeSize/types.NeedlePaddingSize) - 1
	vlib.Check(t, 20000, 300000, func(t *rapid.T) {
		key := rapid.OneOf(rapid.Uint64(), genKey()).Draw(t, "key")
		units := rapid.OneOf(rapid.Int64Range(0, maxUnits), rapid.SampledFrom([]int64{0, 1, 255, 256, 1<<24 - 1, 1 << 24, 1<<32 - 1, maxUnits})).Draw(t, "offsetUnits")
		if units > maxUnits {
			units = maxUnits
		}
		size := rapid.OneOf(rapid.Int32(), rapid.SampledFrom([]int32{0, 1, -1, -2, 1<<31 - 1, -1 << 31})).Draw(t, "size")
		off := types.ToOffset(units * types.NeedlePaddingSize)
		if off.ToActualOffset() != units*types.NeedlePaddingSize {
			t.Fatalf("offset %d -> %d", units*8, off.ToActualOffset())
		}
		b := needle_map.ToBytes(types.NeedleId(key), off, types.Size(size))
		if len(b) != types.NeedleMapEntrySize {
			t.Fatalf("entry has %d bytes, want %d", len(b), types.NeedleMapEntrySize)
		}
		k2, o2, s2 := idx.IdxFileEntry(b)
		if uint64(k2) != key || o2 != off || o2.ToActualOffset() != units*8 || int32(s2) != size {
			t.Fatalf("entry (key=%x off=%d size=%d) decodes to (key=%x off=%d size=%d)", key, units*8, size, k2, o2.ToActualOffset(), s2)
		}
		nv := needle_map.NeedleValue{Key: types.NeedleId(key), Offset: off, Size: types.Size(size)}
		if string(nv.ToBytes()) != string(b) {
			t.Fatalf("NeedleValue.ToBytes differs from ToBytes")
		}
		// big-endian layout: key, offset, size
		if uint64(b[0])<<56|uint64(b[1])<<48|uint64(b[2])<<40|uint64(b[3])<<32|uint64(b[4])<<24|uint64(b[5])<<16|uint64(b[6])<<8|uint64(b[7]) != key {
			t.Fatalf("key bytes not big endian: %x", b)
		}
		vlib.Case(fmt.Sprintf("idx:%x/%d/%d", key, units, size), key > 255 && units > 255, "index-entry", fmt.Sprintf("offset-size-%d", types.OffsetSize))
	})
}

func TestPropIndexFileWalk(t *testing.T) {
	vlib.Check(t, 300, 3000, func(t *rapid.T) {
		n := rapid.OneOf(rapid.IntRange(0, 40), rapid.SampledFrom([]int{1023, 1024, 1025, 2049})).Draw(t, "n")
		maxUnits := int64(types.MaxPossibleVolumeSize/types.NeedlePaddingSize) - 1
		type ent struct {
			k uint64
			o int64
			s int32
		}
		ents := make([]ent, n)
		var raw []byte
		for i := range ents {
			ents[i] = ent{rapid.Uint64().Draw(t, "k"), rapid.Int64Range(0, maxUnits).Draw(t, "o") * 8, rapid.Int32().Draw(t, "s")}
			raw = append(raw, needle_map.ToBytes(types.NeedleId(ents[i].k), types.ToOffset(ents[i].o), types.Size(ents[i].s))...)
		}
		partial := rapid.IntRange(0, types.NeedleMapEntrySize-1).Draw(t, "partialTail")
		raw = append(raw, make([]byte, partial)...)
		i := 0
		err := idx.WalkIndexFile(strings.NewReader(string(raw)), func(key types.NeedleId, offset types.Offset, size types.Size) error {
			if i >= n {
				return fmt.Errorf("extra entry %d", i)
			}
			e := ents[i]
			if uint64(key) != e.k || offset.ToActualOffset() != e.o || int32(size) != e.s {
				return fmt.Errorf("entry %d: got (%x,%d,%d) want (%x,%d,%d)", i, key, offset.ToActualOffset(), size, e.k, e.o, e.s)
			}
			i++
			return nil
		})
		if err != nil {
			t.Fatalf("walk: %v", err)
		}
		if i != n {
			t.Fatalf("walk visited %d of %d entries", i, n)
		}
		vlib.Case(fmt.Sprintf("walk:n=%d partial=%d first=%v", n, partial, func() interface{} {
			if n > 0 {
				return ents[0]
			}
			return nil
		}()), n >= 2, "index-walk")
	})
}
