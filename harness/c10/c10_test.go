// C10 New volumes are placed according to their replication setting.
//
// A case is one generated cluster (data centers / racks / volume servers with
// max volume counts, used volumes, remote volumes and EC shards per disk type,
// registered through the same topology calls the master's heartbeat handler
// makes) plus one VolumeGrowOption (replication, disk type, optional preferred
// data center / rack / server). findEmptySlotsForOneVolume is then called many
// times with the global math/rand re-seeded from a drawn value; every returned
// server list is checked against the placement rule with free slots computed
// from the generated configuration (not from the topology's own counters).
package c10

import (
	"flag"
	"fmt"
	"math/rand"
	"os"
	"strings"
	"testing"

	"github.com/chrislusf/seaweedfs/weed/pb/master_pb"
	"github.com/chrislusf/seaweedfs/weed/sequence"
	"github.com/chrislusf/seaweedfs/weed/storage/needle"
	"github.com/chrislusf/seaweedfs/weed/storage/super_block"
	"github.com/chrislusf/seaweedfs/weed/storage/types"
	"github.com/chrislusf/seaweedfs/weed/topology"
	"pgregory.net/rapid"

	"verifharness/vlib"
)

func TestMain(m *testing.M) {
	// glog: no log files, and its (very chatty) stderr output is dropped
	_ = flag.Set("logtostderr", "true")
	if os.Getenv("VERIF_GLOG") == "" {
		if f, err := os.OpenFile(os.DevNull, os.O_WRONLY, 0); err == nil {
			os.Stderr = f
		}
	}
	vlib.Rule("C10: a case = one generated cluster (1-4 DCs x 0-4 racks x 0-5 servers; per disk type hdd/ssd: max 0..8, used/remote volumes, 0..40 EC shards) + one grow option (any of the 27 replications, disk type, optional existing/non-existing preferred DC/rack/server), picked " +
		"30 times (100 thorough) with the global math/rand re-seeded from a drawn value; plus a bounded-exhaustive enumeration of all free/full patterns of a 2x2x2 cluster x 27 replications x 5 preference shapes. " +
		"Non-trivial = replication != 000 on a cluster with >= 2 racks. Distinct = distinct canonical description of cluster+option.")
	vlib.Assume("C10: the cluster is registered by calling GetOrCreateDataCenter/GetOrCreateRack/GetOrCreateDataNode, AdjustMaxVolumeCounts, SyncDataNodeRegistration and SyncDataNodeEcShards directly, in the order MasterServer.SendHeartbeat calls them; no gRPC stream, no raft.")
	vlib.Assume("C10: 'has a free slot' is max + remote - volumes - (ecShards>0 ? ecShards/10+1 : 0) >= 1 for the requested disk type (the formula of DiskUsageCounts.FreeSpace), evaluated on the generated configuration.")
	vlib.Assume("C10: Go map iteration order is not pinned; the oracle is a validity predicate over whatever was returned. An error return is never a violation (completeness is only measured: classes error-but-feasible vs error-infeasible).")
	vlib.Main(m)
}

// ------------------------------------------------------------------ model

var diskTypes = []string{"", "ssd"}

type diskSpec struct {
	Max    int // max volume count reported by the server
	Vols   int // volumes held (including remote ones)
	Remote int // of which tiered to remote storage
	Ec     int // EC shards held
}

func (d diskSpec) free() int {
	f := d.Max + d.Remote - d.Vols
	if d.Ec > 0 {
		f -= d.Ec/10 + 1
	}
	return f
}

type serverSpec struct {
	DC, Rack string
	Ip       string
	Port     int
	Disks    map[string]diskSpec // by disk type; absent = the server has no such disk
}

func (s *serverSpec) id() string { return fmt.Sprintf("%s:%d", s.Ip, s.Port) }

func (s *serverSpec) free(dt string) int {
	d, ok := s.Disks[dt]
	if !ok {
		return 0
	}
	return d.free()
}

type rackSpec struct {
	DC, Name string
	Servers  []*serverSpec
}

type dcSpec struct {
	Name  string
	Racks []*rackSpec
}

type cluster struct {
	DCs []*dcSpec
}

func (c *cluster) servers() (ret []*serverSpec) {
	for _, dc := range c.DCs {
		for _, r := range dc.Racks {
			ret = append(ret, r.Servers...)
		}
	}
	return
}

func (c *cluster) rackCount() (n int) {
	for _, dc := range c.DCs {
		n += len(dc.Racks)
	}
	return
}

func (c *cluster) String() string {
	var b strings.Builder
	for _, dc := range c.DCs {
		fmt.Fprintf(&b, "%s{", dc.Name)
		for _, r := range dc.Racks {
			fmt.Fprintf(&b, "%s[", r.Name)
			for i, s := range r.Servers {
				if i > 0 {
					b.WriteString(" ")
				}
				b.WriteString(s.id())
				for _, dt := range diskTypes {
					if d, ok := s.Disks[dt]; ok {
						name := dt
						if name == "" {
							name = "hdd"
						}
						fmt.Fprintf(&b, "/%s:m%dv%dr%de%d", name, d.Max, d.Vols, d.Remote, d.Ec)
					}
				}
			}
			b.WriteString("]")
		}
		b.WriteString("} ")
	}
	return b.String()
}

// build registers the cluster in a fresh Topology, through the calls the
// master's heartbeat handler makes.
func build(c *cluster) (*topology.Topology, map[string]*topology.DataNode) {
	topo := topology.NewTopology("weedfs", sequence.NewMemorySequencer(), 32*1024, 5, false)
	dns := map[string]*topology.DataNode{}
	vid := uint32(0)
	for _, dcS := range c.DCs {
		dc := topo.GetOrCreateDataCenter(dcS.Name)
		for _, rS := range dcS.Racks {
			rack := dc.GetOrCreateRack(rS.Name)
			for _, s := range rS.Servers {
				maxCounts := map[string]uint32{}
				for dt, d := range s.Disks {
					maxCounts[dt] = uint32(d.Max)
				}
				dn := rack.GetOrCreateDataNode(s.Ip, s.Port, s.id(), maxCounts)
				dn.AdjustMaxVolumeCounts(maxCounts)
				var vols []*master_pb.VolumeInformationMessage
				var ecs []*master_pb.VolumeEcShardInformationMessage
				for _, dt := range diskTypes {
					d, ok := s.Disks[dt]
					if !ok {
						continue
					}
					for i := 0; i < d.Vols; i++ {
						vid++
						m := &master_pb.VolumeInformationMessage{Id: vid, Size: 1000, Version: uint32(needle.CurrentVersion), DiskType: dt}
						if i < d.Remote {
							m.RemoteStorageName, m.RemoteStorageKey = "s3.default", fmt.Sprintf("k%d", vid)
							m.ReadOnly = true
						}
						vols = append(vols, m)
					}
					for left := d.Ec; left > 0; left -= 14 {
						vid++
						n := left
						if n > 14 {
							n = 14
						}
						ecs = append(ecs, &master_pb.VolumeEcShardInformationMessage{Id: vid, EcIndexBits: uint32(1)<<uint(n) - 1, DiskType: dt})
					}
				}
				topo.SyncDataNodeRegistration(vols, dn)
				topo.SyncDataNodeEcShards(ecs, dn)
				dns[s.id()] = dn
			}
		}
	}
	return topo, dns
}

// checkAccounting: the free slots the topology reports for each server must be
// the ones of the generated configuration (otherwise "has a free slot" would be
// judged on wrong numbers).
func checkAccounting(c *cluster, dns map[string]*topology.DataNode) error {
	for _, s := range c.servers() {
		for _, dt := range diskTypes {
			got := dns[s.id()].AvailableSpaceFor(&topology.VolumeGrowOption{DiskType: types.ToDiskType(dt)})
			if got != int64(s.free(dt)) {
				return fmt.Errorf("server %s disk %q: topology reports %d free slots, configuration has %d (%+v)", s.id(), dt, got, s.free(dt), s.Disks[dt])
			}
		}
	}
	return nil
}

type option struct {
	Rp                 string
	Disk               string
	DC, Rack, DataNode string
}

func (o option) String() string {
	d := o.Disk
	if d == "" {
		d = "hdd"
	}
	return fmt.Sprintf("rp=%s disk=%s dc=%q rack=%q node=%q", o.Rp, d, o.DC, o.Rack, o.DataNode)
}

func (o option) grow() *topology.VolumeGrowOption {
	rp, err := super_block.NewReplicaPlacementFromString(o.Rp)
	if err != nil {
		panic(err)
	}
	return &topology.VolumeGrowOption{ReplicaPlacement: rp, Ttl: needle.EMPTY_TTL, DiskType: types.ToDiskType(o.Disk),
		DataCenter: o.DC, Rack: o.Rack, DataNode: o.DataNode}
}

func (o option) xyz() (x, y, z int) {
	return int(o.Rp[0] - '0'), int(o.Rp[1] - '0'), int(o.Rp[2] - '0')
}

// validPlacement is the placement rule of the property statement.
func validPlacement(c *cluster, o option, ids []string) error {
	x, y, z := o.xyz()
	byId := map[string]*serverSpec{}
	for _, s := range c.servers() {
		byId[s.id()] = s
	}
	if len(ids) != 1+x+y+z {
		return fmt.Errorf("%d servers returned, replication %s needs %d", len(ids), o.Rp, 1+x+y+z)
	}
	seen := map[string]bool{}
	for _, id := range ids {
		s := byId[id]
		if s == nil {
			return fmt.Errorf("unknown server %s", id)
		}
		if seen[id] {
			return fmt.Errorf("server %s chosen twice", id)
		}
		seen[id] = true
		if s.free(o.Disk) < 1 {
			return fmt.Errorf("server %s has no free slot for disk %q (%+v)", id, o.Disk, s.Disks[o.Disk])
		}
	}
	// some chosen server's rack must work as the main rack
	var why []string
	for _, mainId := range ids {
		D, R := byId[mainId].DC, byId[mainId].Rack
		main, otherRacks, otherDCs := 0, map[string]int{}, map[string]int{}
		nodeInMain := false
		for _, id := range ids {
			s := byId[id]
			switch {
			case s.DC == D && s.Rack == R:
				main++
				if id == o.DataNode {
					nodeInMain = true
				}
			case s.DC == D:
				otherRacks[s.Rack]++
			default:
				otherDCs[s.DC]++
			}
		}
		bad := ""
		switch {
		case main != z+1:
			bad = fmt.Sprintf("%d servers in rack %s/%s, want %d", main, D, R, z+1)
		case len(otherRacks) != y || sum(otherRacks) != y:
			bad = fmt.Sprintf("other racks of %s used %v, want %d racks with one server each", D, otherRacks, y)
		case len(otherDCs) != x || sum(otherDCs) != x:
			bad = fmt.Sprintf("other data centers used %v, want %d with one server each", otherDCs, x)
		case o.DC != "" && D != o.DC:
			bad = fmt.Sprintf("main data center %s, requested %s", D, o.DC)
		case o.Rack != "" && R != o.Rack:
			bad = fmt.Sprintf("main rack %s, requested %s", R, o.Rack)
		case o.DataNode != "" && !nodeInMain:
			bad = fmt.Sprintf("requested server %s is not among the main rack's servers", o.DataNode)
		}
		if bad == "" {
			return nil
		}
		why = append(why, "main="+mainId+": "+bad)
	}
	return fmt.Errorf("no reading of the result satisfies the rule: %s", strings.Join(why, "; "))
}

func sum(m map[string]int) (n int) {
	for _, v := range m {
		n += v
	}
	return
}

// feasible: brute-force search for any valid placement.
func feasible(c *cluster, o option) bool {
	x, y, z := o.xyz()
	for _, dc := range c.DCs {
		if o.DC != "" && dc.Name != o.DC {
			continue
		}
		otherDCs := 0
		for _, d2 := range c.DCs {
			if d2 == dc {
				continue
			}
			has := false
			for _, r := range d2.Racks {
				for _, s := range r.Servers {
					if s.free(o.Disk) >= 1 {
						has = true
					}
				}
			}
			if has {
				otherDCs++
			}
		}
		if otherDCs < x {
			continue
		}
		for _, r := range dc.Racks {
			if o.Rack != "" && r.Name != o.Rack {
				continue
			}
			freeNodes, hasNode := 0, o.DataNode == ""
			for _, s := range r.Servers {
				if s.free(o.Disk) >= 1 {
					freeNodes++
					if s.id() == o.DataNode {
						hasNode = true
					}
				}
			}
			if freeNodes < z+1 || !hasNode {
				continue
			}
			otherRacks := 0
			for _, r2 := range dc.Racks {
				if r2 == r {
					continue
				}
				for _, s := range r2.Servers {
					if s.free(o.Disk) >= 1 {
						otherRacks++
						break
					}
				}
			}
			if otherRacks >= y {
				return true
			}
		}
	}
	return false
}

// ------------------------------------------------------------------ generators

func genCluster(t *rapid.T) *cluster {
	c := &cluster{}
	nDC := rapid.SampledFrom([]int{1, 2, 2, 3, 3, 3, 4}).Draw(t, "nDC")
	// how full the servers are: 0 empty .. 3 nearly everything used
	fullness := rapid.SampledFrom([]int{0, 1, 1, 2, 2, 2, 3}).Draw(t, "fullness")
	// which disks servers have: 0 hdd only, 1 both on most, 2 mixed
	diskMix := rapid.IntRange(0, 2).Draw(t, "diskMix")
	ecHeavy := rapid.IntRange(0, 3).Draw(t, "ecHeavy") == 0
	port := 8080
	for d := 0; d < nDC; d++ {
		dc := &dcSpec{Name: fmt.Sprintf("dc%d", d+1)}
		nRack := rapid.SampledFrom([]int{0, 1, 1, 2, 2, 3, 3, 3, 4}).Draw(t, "nRack")
		for r := 0; r < nRack; r++ {
			// rack names repeat across data centers on purpose
			rk := &rackSpec{DC: dc.Name, Name: fmt.Sprintf("rack%d", r+1)}
			nSrv := rapid.SampledFrom([]int{0, 1, 1, 2, 2, 3, 3, 3, 4, 5}).Draw(t, "nSrv")
			for s := 0; s < nSrv; s++ {
				port++
				srv := &serverSpec{DC: dc.Name, Rack: rk.Name, Ip: fmt.Sprintf("10.%d.%d.%d", d+1, r+1, s+1), Port: port, Disks: map[string]diskSpec{}}
				for _, dt := range diskTypes {
					has := true
					switch diskMix {
					case 0:
						has = dt == ""
					case 2:
						has = rapid.IntRange(0, 2).Draw(t, "hasDisk") > 0
					}
					if !has {
						continue
					}
					var d diskSpec
					d.Max = rapid.IntRange(0, 8).Draw(t, "max")
					switch fullness {
					case 0:
					case 1:
						d.Vols = rapid.IntRange(0, d.Max/2).Draw(t, "vols")
					case 2:
						d.Vols = rapid.IntRange(0, d.Max+1).Draw(t, "vols")
					default:
						lo := d.Max - 1
						if lo < 0 {
							lo = 0
						}
						d.Vols = rapid.IntRange(lo, d.Max+1).Draw(t, "vols")
					}
					if d.Vols > 0 && rapid.IntRange(0, 3).Draw(t, "hasRemote") == 0 {
						d.Remote = rapid.IntRange(1, d.Vols).Draw(t, "remote")
					}
					if ecHeavy || rapid.IntRange(0, 3).Draw(t, "hasEc") == 0 {
						d.Ec = rapid.OneOf(rapid.IntRange(0, 40), rapid.SampledFrom([]int{1, 9, 10, 11, 14, 19, 20, 28, 40})).Draw(t, "ec")
					}
					srv.Disks[dt] = d
				}
				rk.Servers = append(rk.Servers, srv)
			}
			dc.Racks = append(dc.Racks, rk)
		}
		c.DCs = append(c.DCs, dc)
	}
	return c
}

var allRps = func() (ret []string) {
	for x := 0; x <= 2; x++ {
		for y := 0; y <= 2; y++ {
			for z := 0; z <= 2; z++ {
				ret = append(ret, fmt.Sprintf("%d%d%d", x, y, z))
			}
		}
	}
	return
}()

func genOption(t *rapid.T, c *cluster) option {
	srv := c.servers()
	// the largest replication digits the shape of the cluster could support
	maxX, maxY, maxZ, hasSsd := len(c.DCs)-1, 0, 0, false
	for _, dc := range c.DCs {
		if len(dc.Racks)-1 > maxY {
			maxY = len(dc.Racks) - 1
		}
		for _, r := range dc.Racks {
			if len(r.Servers)-1 > maxZ {
				maxZ = len(r.Servers) - 1
			}
			for _, s := range r.Servers {
				if _, ok := s.Disks["ssd"]; ok {
					hasSsd = true
				}
			}
		}
	}
	_, _, _ = maxX, maxY, maxZ
	o := option{}
	if hasSsd {
		o.Disk = rapid.SampledFrom([]string{"", "", "ssd"}).Draw(t, "disk")
	} else {
		o.Disk = rapid.SampledFrom([]string{"", "", "", "", "", "", "", "", "", "ssd"}).Draw(t, "disk")
	}
	anyFree := func(dt string) bool {
		for _, s := range srv {
			if s.free(dt) >= 1 {
				return true
			}
		}
		return false
	}
	if !anyFree(o.Disk) && rapid.IntRange(0, 4).Draw(t, "diskKeep") > 0 {
		for _, dt := range diskTypes {
			if anyFree(dt) {
				o.Disk = dt
			}
		}
	}
	var dcNames, rackNames, nodeIds []string
	seenRack := map[string]bool{}
	for _, dc := range c.DCs {
		dcNames = append(dcNames, dc.Name)
		for _, r := range dc.Racks {
			if !seenRack[r.Name] {
				seenRack[r.Name] = true
				rackNames = append(rackNames, r.Name)
			}
		}
	}
	var freeSrv []*serverSpec
	for _, s := range srv {
		nodeIds = append(nodeIds, s.id())
		if s.free(o.Disk) >= 1 {
			freeSrv = append(freeSrv, s)
		}
	}
	// preference mode: 0 none, 1 a consistent subset of one server's (dc, rack, id),
	// 2 independent existing names (possibly contradictory), 3 one non-existing name
	mode := rapid.SampledFrom([]int{0, 0, 0, 0, 1, 1, 1, 1, 1, 2, 3}).Draw(t, "prefMode")
	vlib.Class(fmt.Sprintf("gen-pref-mode-%d", mode))
	switch {
	case mode == 1 && len(srv) > 0:
		pool := srv
		if len(freeSrv) > 0 && rapid.IntRange(0, 3).Draw(t, "anchorFree") > 0 {
			pool = freeSrv
		}
		anchor := pool[rapid.IntRange(0, len(pool)-1).Draw(t, "anchor")]
		which := rapid.IntRange(1, 7).Draw(t, "prefWhich")
		if which&1 != 0 {
			o.DC = anchor.DC
		}
		if which&2 != 0 {
			o.Rack = anchor.Rack
		}
		if which&4 != 0 {
			o.DataNode = anchor.id()
		}
	case mode == 2:
		if len(dcNames) > 0 && rapid.Bool().Draw(t, "prefDC") {
			o.DC = rapid.SampledFrom(dcNames).Draw(t, "dcName")
		}
		if len(rackNames) > 0 && rapid.Bool().Draw(t, "prefRack") {
			o.Rack = rapid.SampledFrom(rackNames).Draw(t, "rackName")
		}
		if len(nodeIds) > 0 && rapid.Bool().Draw(t, "prefNode") {
			o.DataNode = rapid.SampledFrom(nodeIds).Draw(t, "nodeId")
		}
	case mode == 3:
		switch rapid.IntRange(0, 2).Draw(t, "missing") {
		case 0:
			o.DC = "dc9"
		case 1:
			o.Rack = "rack9"
		default:
			o.DataNode = "10.9.9.9:9999"
		}
	}
	// replication: mostly one this cluster can satisfy (with the preferences drawn above), sometimes any
	var can []string
	for _, rp := range allRps {
		if feasible(c, option{Rp: rp, Disk: o.Disk, DC: o.DC, Rack: o.Rack, DataNode: o.DataNode}) {
			can = append(can, rp)
		}
	}
	if len(can) == 0 {
		vlib.Class("gen-cluster-without-any-free-placement")
	}
	if len(can) > 0 && rapid.IntRange(0, 5).Draw(t, "rpAny") > 0 {
		o.Rp = rapid.SampledFrom(can).Draw(t, "rpFeasible")
	} else {
		o.Rp = rapid.SampledFrom(allRps).Draw(t, "rp")
	}
	return o
}

// ------------------------------------------------------------------ property

type outcome struct{ ok, errFeasible, errInfeasible int }

// runPicks calls the code under test n times and checks every result.
func runPicks(c *cluster, o option, topo *topology.Topology, dns map[string]*topology.DataNode, n int, seed int64) (out outcome, err error) {
	vg := topology.NewDefaultVolumeGrowth()
	opt := o.grow()
	feas := feasible(c, o)
	rand.Seed(seed)
	for i := 0; i < n; i++ {
		servers, e := topology.VerifFindEmptySlotsForOneVolume(vg, topo, opt)
		if e != nil {
			if feas {
				out.errFeasible++
			} else {
				out.errInfeasible++
			}
			continue
		}
		var ids []string
		for _, dn := range servers {
			if dn == nil {
				return out, fmt.Errorf("pick %d: nil server in result", i)
			}
			id := string(dn.Id())
			if reg := dns[id]; reg != dn {
				return out, fmt.Errorf("pick %d: returned server %s is not the registered node", i, id)
			}
			// "before the pick": the pick itself does not change counters, so this is the same value
			if a := dn.AvailableSpaceFor(opt); a < 1 {
				return out, fmt.Errorf("pick %d: server %s reports AvailableSpaceFor=%d", i, id, a)
			}
			ids = append(ids, id)
		}
		if e := validPlacement(c, o, ids); e != nil {
			return out, fmt.Errorf("pick %d (seed %d) returned %v: %v", i, seed, ids, e)
		}
		if !feas {
			return out, fmt.Errorf("harness inconsistency: %v accepted as valid but brute force finds no valid placement", ids)
		}
		out.ok++
	}
	return out, nil
}

func (o outcome) class() string {
	switch {
	case o.ok > 0 && o.errFeasible == 0 && o.errInfeasible == 0:
		return "placed-every-time"
	case o.ok > 0:
		return "placed-sometimes(error-but-feasible)"
	case o.errFeasible > 0:
		return "error-every-time-but-feasible"
	}
	return "error-infeasible"
}

func TestPropPlacement(t *testing.T) {
	picks := vlib.Pick(30, 100)
	vlib.Check(t, 6000, 60000, func(t *rapid.T) {
		c := genCluster(t)
		o := genOption(t, c)
		seed := rapid.Int64().Draw(t, "randSeed")
		topo, dns := build(c)
		if err := checkAccounting(c, dns); err != nil {
			t.Fatalf("cluster %s: %v", c, err)
		}
		out, err := runPicks(c, o, topo, dns, picks, seed)
		if err != nil {
			t.Fatalf("cluster %s option %s: %v", c, o, err)
		}
		// picking must not have consumed anything
		if err := checkAccounting(c, dns); err != nil {
			t.Fatalf("after picking, cluster %s: %v", c, err)
		}
		x, y, z := o.xyz()
		classes := []string{out.class(), "rp-copies-" + fmt.Sprint(1+x+y+z)}
		if x > 0 {
			classes = append(classes, "rp-other-dc")
		}
		if y > 0 {
			classes = append(classes, "rp-other-rack")
		}
		if z > 0 {
			classes = append(classes, "rp-same-rack")
		}
		if o.DC != "" {
			classes = append(classes, "pref-dc")
		}
		if o.Rack != "" {
			classes = append(classes, "pref-rack")
		}
		if o.DataNode != "" {
			classes = append(classes, "pref-node")
		}
		if o.Disk != "" {
			classes = append(classes, "disk-ssd")
		}
		for i := 0; i < out.ok; i++ {
			vlib.Class("pick-ok")
		}
		for i := 0; i < out.errFeasible; i++ {
			vlib.Class("pick-error-but-feasible")
		}
		for i := 0; i < out.errInfeasible; i++ {
			vlib.Class("pick-error-infeasible")
		}
		vlib.Case(fmt.Sprintf("%s| %s", c, o), o.Rp != "000" && c.rackCount() >= 2, classes...)
	})
}

// smallShapes: (data centers, racks per DC, servers per rack) of the
// bounded-exhaustive enumeration; every free/full pattern of every shape is
// combined with all 27 replications and 5 preference shapes.
func smallShapes() [][3]int {
	s := [][3]int{{2, 2, 2}, {3, 1, 1}, {1, 3, 1}, {1, 1, 3}, {3, 2, 1}, {3, 1, 2}, {2, 3, 1}, {1, 3, 2}, {2, 1, 3}, {1, 2, 3}}
	if vlib.Thorough() {
		s = append(s, [3]int{3, 2, 2}, [3]int{2, 3, 2}, [3]int{2, 2, 3})
	}
	return s
}

func TestPropPlacementExhaustive(t *testing.T) {
	picks := vlib.Pick(6, 12)
	idx := 0
	for _, shape := range smallShapes() {
		n := shape[0] * shape[1] * shape[2]
		for mask := 0; mask < 1<<uint(n); mask++ {
			c := &cluster{}
			var all []*serverSpec
			i := 0
			for d := 0; d < shape[0]; d++ {
				dc := &dcSpec{Name: fmt.Sprintf("dc%d", d+1)}
				for r := 0; r < shape[1]; r++ {
					rk := &rackSpec{DC: dc.Name, Name: fmt.Sprintf("rack%d", r+1)}
					for s := 0; s < shape[2]; s++ {
						srv := &serverSpec{DC: dc.Name, Rack: rk.Name, Ip: fmt.Sprintf("10.%d.%d.%d", d+1, r+1, s+1), Port: 8080 + i,
							Disks: map[string]diskSpec{"": {Max: 1, Vols: 1 - (mask>>uint(i))&1}}}
						rk.Servers = append(rk.Servers, srv)
						all = append(all, srv)
						i++
					}
					dc.Racks = append(dc.Racks, rk)
				}
				c.DCs = append(c.DCs, dc)
			}
			lastDC := c.DCs[len(c.DCs)-1]
			lastRack := lastDC.Racks[len(lastDC.Racks)-1]
			var topo *topology.Topology
			var dns map[string]*topology.DataNode
			for _, rp := range allRps {
				for pref := 0; pref < 5; pref++ {
					idx++
					if !vlib.ShardOwns(idx) {
						continue
					}
					if topo == nil {
						topo, dns = build(c)
						if err := checkAccounting(c, dns); err != nil {
							t.Fatalf("cluster %s: %v", c, err)
						}
					}
					o := option{Rp: rp}
					switch pref {
					case 1:
						o.DC = lastDC.Name
					case 2:
						o.Rack = lastRack.Name
					case 3: // the last server of the first data center, fully qualified
						s := all[shape[1]*shape[2]-1]
						o.DC, o.Rack, o.DataNode = s.DC, s.Rack, s.id()
					case 4:
						o.DataNode = lastRack.Servers[0].id()
					}
					out, err := runPicks(c, o, topo, dns, picks, int64(idx))
					if err != nil {
						t.Fatalf("cluster %s option %s: %v", c, o, err)
					}
					vlib.Case(fmt.Sprintf("small:%dx%dx%d:%0*b| %s", shape[0], shape[1], shape[2], n, mask, o), rp != "000" && shape[0]*shape[1] >= 2, "small-"+out.class())
				}
			}
		}
	}
	vlib.Exhaustive("free-patterns-of-small-clusters-x-27-replications-x-5-preferences", true)
}
