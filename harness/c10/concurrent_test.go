// C10, overlapping grow requests through the real grow path (GrowByCountAndType -> findEmptySlotsForOneVolume ->
// NextVolumeId -> AllocateVolume rpc -> slot counters). The master serves /vol/grow and the automatic grow
// goroutines concurrently; "each have a free slot" must hold for the placements of overlapping requests too, i.e. no
// server is ever handed more volumes than it has slots. The volume servers are in-process gRPC stubs whose
// AllocateVolume takes a drawn few milliseconds (schedule perturbation only); an error return is never a violation.
package c10

import (
	"context"
	"fmt"
	"net"
	"sync"
	"sync/atomic"
	"testing"
	"time"

	"github.com/chrislusf/raft"
	"github.com/chrislusf/seaweedfs/weed/pb/volume_server_pb"
	"github.com/chrislusf/seaweedfs/weed/storage/needle"
	"github.com/chrislusf/seaweedfs/weed/storage/super_block"
	"github.com/chrislusf/seaweedfs/weed/topology"
	"google.golang.org/grpc"
	"pgregory.net/rapid"

	"verifharness/vlib"
)

type growRaft struct {
	raft.Server
	topo *topology.Topology
}

func (r *growRaft) Name() string         { return "master1:9333" }
func (r *growRaft) Leader() string       { return "master1:9333" }
func (r *growRaft) State() string        { return raft.Leader }
func (r *growRaft) Context() interface{} { return r.topo }
func (r *growRaft) Do(c raft.Command) (interface{}, error) {
	return c.(interface {
		Apply(raft.Server) (interface{}, error)
	}).Apply(r)
}

type allocStub struct {
	volume_server_pb.UnimplementedVolumeServerServer
	port      int
	allocated int32
	delayUs   int32
}

func (s *allocStub) AllocateVolume(ctx context.Context, req *volume_server_pb.AllocateVolumeRequest) (*volume_server_pb.AllocateVolumeResponse, error) {
	time.Sleep(time.Duration(atomic.LoadInt32(&s.delayUs)) * time.Microsecond)
	atomic.AddInt32(&s.allocated, 1)
	return &volume_server_pb.AllocateVolumeResponse{}, nil
}

var (
	stubOnce sync.Once
	stubs    []*allocStub
	stubErr  error
)

func allocStubs() ([]*allocStub, error) {
	stubOnce.Do(func() {
		for i := 0; i < 6; i++ {
			lis, err := net.Listen("tcp", "127.0.0.1:0")
			if err != nil {
				stubErr = err
				return
			}
			p := lis.Addr().(*net.TCPAddr).Port
			if p <= 10000 {
				stubErr = fmt.Errorf("ephemeral port %d <= 10000", p)
				return
			}
			s := &allocStub{port: p - 10000} // a volume server's grpc port is its http port + 10000
			gs := grpc.NewServer()
			volume_server_pb.RegisterVolumeServerServer(gs, s)
			go gs.Serve(lis)
			stubs = append(stubs, s)
		}
	})
	return stubs, stubErr
}

func TestPropConcurrentGrow(t *testing.T) {
	st, err := allocStubs()
	if err != nil {
		t.Skipf("cannot start the volume server stubs: %v", err)
	}
	vlib.Check(t, 60, 600, func(t *rapid.T) {
		// 1 data center, 2-3 racks, 1-2 servers each, 1-2 hdd slots, nothing stored
		c := &cluster{DCs: []*dcSpec{{Name: "dc1"}}}
		nRacks := rapid.IntRange(2, 3).Draw(t, "racks")
		k := 0
		for r := 0; r < nRacks; r++ {
			rs := &rackSpec{DC: "dc1", Name: fmt.Sprintf("r%d", r)}
			for s := rapid.IntRange(1, 2).Draw(t, "servers"); s > 0 && k < len(st); s-- {
				rs.Servers = append(rs.Servers, &serverSpec{DC: "dc1", Rack: rs.Name, Ip: "127.0.0.1", Port: st[k].port,
					Disks: map[string]diskSpec{"": {Max: rapid.IntRange(1, 2).Draw(t, "max")}}})
				k++
			}
			c.DCs[0].Racks = append(c.DCs[0].Racks, rs)
		}
		delay := int32(rapid.IntRange(200, 5000).Draw(t, "allocDelayUs"))
		for _, s := range st {
			atomic.StoreInt32(&s.allocated, 0)
			atomic.StoreInt32(&s.delayUs, delay)
		}
		topo, dns := build(c)
		topo.RaftServer = &growRaft{topo: topo}
		vg := topology.NewDefaultVolumeGrowth()
		g := rapid.IntRange(2, 5).Draw(t, "requests")
		reps := make([]string, g)
		for i := range reps {
			reps[i] = rapid.SampledFrom([]string{"000", "001", "010", "010", "011"}).Draw(t, "replication")
		}
		counts, errs := make([]int, g), make([]error, g)
		var wg sync.WaitGroup
		var start int32
		for i := 0; i < g; i++ {
			wg.Add(1)
			go func(i int) {
				defer wg.Done()
				rp, _ := super_block.NewReplicaPlacementFromString(reps[i])
				opt := &topology.VolumeGrowOption{Collection: fmt.Sprintf("c%d", i), ReplicaPlacement: rp, Ttl: needle.EMPTY_TTL}
				for atomic.LoadInt32(&start) == 0 {
					time.Sleep(50 * time.Microsecond)
				}
				counts[i], errs[i] = vg.GrowByCountAndType(grpc.WithInsecure(), 1, opt, topo)
			}(i)
		}
		atomic.StoreInt32(&start, 1)
		wg.Wait()
		ok, refused := 0, 0
		for i := range errs {
			if errs[i] == nil && counts[i] > 0 {
				ok++
			} else {
				refused++
			}
		}
		for _, s := range c.servers() {
			u, _ := topology.VerifDiskUsage(dns[s.id()], "")
			var rpcs int32
			for _, x := range st {
				if x.port == s.Port {
					rpcs = atomic.LoadInt32(&x.allocated)
				}
			}
			if u.VolumeCount > u.MaxVolumeCount || int64(rpcs) > u.MaxVolumeCount {
				t.Fatalf("server %s (rack %s) has %d slots but holds %d volumes after %d allocate rpcs; %d overlapping grow requests %v on %s: %d placed, %d refused",
					s.id(), s.Rack, u.MaxVolumeCount, u.VolumeCount, rpcs, g, reps, c, ok, refused)
			}
		}
		cls := []string{"concurrent-grow"}
		if refused > 0 {
			cls = append(cls, "concurrent-grow-some-refused-for-lack-of-slots")
		}
		vlib.Case(fmt.Sprintf("concurrent-grow %v on %s", reps, c), refused > 0 && ok > 0, cls...)
	})
}
