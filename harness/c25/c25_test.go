// C25 Filer HTTP writes store exactly the request body.
package c25

import (
	"bufio"
	"bytes"
	"context"
	"encoding/json"
	"fmt"
	"net"
	"net/http"
	"strconv"
	"strings"
	"sync"
	"sync/atomic"
	"testing"
	"time"

	"github.com/chrislusf/seaweedfs/weed/pb"
	"github.com/chrislusf/seaweedfs/weed/pb/filer_pb"
	"google.golang.org/grpc"
	"pgregory.net/rapid"

	"verifharness/vlib"
)

func TestMain(m *testing.M) {
	vlib.Rule("C25: per case a fresh directory on a real `weed filer` child (-maxMB=1; one filer with -saveToFilerLimit=0, one with 64) and a history of 1-6 operations on 1-2 file names: PUT / multipart POST (?maxMB absent,1,2) with body sizes {0,1,63,64,65,1MiB-1,1MiB,1MiB+1,2MiB,3MiB+7,random}, ?op=append, aborted bodies (raw TCP: Content-Length N or chunked encoding, write side closed after k<N bytes, k around chunk borders), and files pre-created over gRPC. Oracle: byte-array model per name; after every operation GET (whole + random ranges) must equal the model; an aborted body must not be answered 2xx and must leave the previous content / 404. Non-trivial = history with a body spanning >=2 chunks, or an append, or an aborted body. Volume-side faults (separate cluster with 7 volumes): a generated subset of the volumes the master still offers is marked read-only on the volume server, files of 1-3 chunks are written through the filer before a heartbeat reports it; a request answered 2xx must read back completely whatever retries its chunks took, a failed one must leave nothing; non-trivial there = at least one chunk upload was refused.")
	vlib.Assume("master + one volume server + two filer child processes per shard process; the weed binary is built from /repo's working tree")
	vlib.Main(m)
}

const MiB = 1 << 20

var (
	clOnce  sync.Once
	cl      *vlib.Cluster
	filer0  *vlib.Proc // -saveToFilerLimit=0 (cluster's own filer)
	filer64 *vlib.Proc
	clErr   error
	dirSeq  int64
)

func cluster(t interface{ Fatalf(string, ...any) }) *vlib.Cluster {
	clOnce.Do(func() {
		cl, clErr = vlib.StartCluster(vlib.ClusterOpts{Volumes: 1, Filer: true, FilerArgs: []string{"-maxMB=1"}})
		if clErr != nil {
			return
		}
		filer0 = cl.FilerProc
		filer64, clErr = cl.AddFiler("filer64", "-maxMB=1", "-saveToFilerLimit=64")
	})
	if clErr != nil {
		t.Fatalf("INCONCLUSIVE cluster start: %v", clErr)
	}
	return cl
}

func content(seed uint32, n int) []byte {
	b := make([]byte, n)
	x := seed*2654435761 | 1
	for i := 0; i+4 <= n; i += 4 {
		x ^= x << 13
		x ^= x >> 17
		x ^= x << 5
		b[i], b[i+1], b[i+2], b[i+3] = byte(x), byte(x>>8), byte(x>>16), byte(x>>24)
	}
	for i := n &^ 3; i < n; i++ {
		b[i] = byte(seed + uint32(i))
	}
	return b
}

func genSize() *rapid.Generator[int] {
	return rapid.OneOf(
		rapid.SampledFrom([]int{0, 1, 63, 64, 65, MiB - 1, MiB, MiB + 1, 2 * MiB, 3*MiB + 7}),
		rapid.IntRange(1, 300),
		rapid.IntRange(1, 300),
		rapid.IntRange(300, 3*MiB),
	)
}

func filerURL(p *vlib.Proc) string { return fmt.Sprintf("http://127.0.0.1:%d", p.Port) }

// get fetches path; returns (status, body).
func get(p *vlib.Proc, path string, rangeHdr string) (int, http.Header, []byte, error) {
	h := map[string]string{}
	if rangeHdr != "" {
		h["Range"] = rangeHdr
	}
	return vlib.Do("GET", filerURL(p)+path, h, nil)
}

func firstDiff(a, b []byte) int {
	for i := 0; i < len(a) && i < len(b); i++ {
		if a[i] != b[i] {
			return i
		}
	}
	if len(a) < len(b) {
		return len(a)
	}
	return len(b)
}

// verify compares the filer's view of path with the model (nil = absent).
func verify(t *rapid.T, p *vlib.Proc, path string, want []byte, exists bool, trace []string) {
	code, _, body, err := get(p, path, "")
	if err != nil {
		t.Fatalf("GET %s: %v (history: %s)", path, err, strings.Join(trace, "; "))
	}
	if !exists {
		if code != 404 {
			t.Fatalf("GET %s -> %d with %d bytes, the file should not exist (history: %s)", path, code, len(body), strings.Join(trace, "; "))
		}
		return
	}
	if code != 200 {
		t.Fatalf("GET %s -> %d, want 200 with %d bytes (history: %s)", path, code, len(want), strings.Join(trace, "; "))
	}
	if !bytes.Equal(body, want) {
		t.Fatalf("GET %s returned %d bytes, want %d; first difference at offset %d (history: %s)", path, len(body), len(want), firstDiff(body, want), strings.Join(trace, "; "))
	}
	if len(want) > 0 {
		for i := 0; i < 2; i++ {
			a := rapid.IntRange(0, len(want)-1).Draw(t, "rangeStart")
			b := rapid.IntRange(a, len(want)-1).Draw(t, "rangeEnd")
			code, hdr, body, err := get(p, path, fmt.Sprintf("bytes=%d-%d", a, b))
			if err != nil {
				t.Fatalf("GET %s range: %v", path, err)
			}
			if code != 206 && code != 200 {
				t.Fatalf("GET %s Range bytes=%d-%d -> %d (history: %s)", path, a, b, code, strings.Join(trace, "; "))
			}
			exp := want[a : b+1]
			if code == 200 {
				exp = want
			}
			if !bytes.Equal(body, exp) {
				t.Fatalf("GET %s Range bytes=%d-%d -> %d %q with %d bytes; differs from the model at offset %d (history: %s)", path, a, b, code, hdr.Get("Content-Range"), len(body), firstDiff(body, exp), strings.Join(trace, "; "))
			}
		}
	}
}

// abortedUpload sends a request that declares more body than it sends and
// closes the write side after k bytes. Returns the status code (0 = no response).
func abortedUpload(p *vlib.Proc, method, pathQuery string, body []byte, k int, chunked bool) (int, error) {
	conn, err := net.DialTimeout("tcp", fmt.Sprintf("127.0.0.1:%d", p.Port), 10*time.Second)
	if err != nil {
		return 0, err
	}
	defer conn.Close()
	tc := conn.(*net.TCPConn)
	var req bytes.Buffer
	fmt.Fprintf(&req, "%s %s HTTP/1.1\r\nHost: 127.0.0.1:%d\r\nContent-Type: application/x-verif\r\nConnection: close\r\n", method, pathQuery, p.Port)
	if chunked {
		req.WriteString("Transfer-Encoding: chunked\r\n\r\n")
		// send the k bytes in chunks of up to 64 KiB, never the terminating chunk
		for off := 0; off < k; {
			n := k - off
			if n > 65536 {
				n = 65536
			}
			fmt.Fprintf(&req, "%x\r\n", n)
			req.Write(body[off : off+n])
			req.WriteString("\r\n")
			off += n
		}
		// announce one more chunk that never arrives completely
		fmt.Fprintf(&req, "%x\r\n", len(body)-k)
	} else {
		fmt.Fprintf(&req, "Content-Length: %d\r\n\r\n", len(body))
		req.Write(body[:k])
	}
	conn.SetDeadline(time.Now().Add(120 * time.Second))
	if _, err := conn.Write(req.Bytes()); err != nil {
		return 0, nil // server closed early: no response
	}
	tc.CloseWrite()
	resp, err := http.ReadResponse(bufio.NewReader(conn), nil)
	if err != nil {
		return 0, nil // connection closed without a response
	}
	defer resp.Body.Close()
	return resp.StatusCode, nil
}

type fileModel struct {
	data   []byte
	exists bool
}

func runHistory(t *rapid.T, p *vlib.Proc, inlineLimit int, label string) {
	dir := fmt.Sprintf("/c25/%s-%d-%d", label, vlib.Shard(), atomic.AddInt64(&dirSeq, 1))
	names := []string{"f.bin", "g.txt"}
	model := map[string]*fileModel{"f.bin": {}, "g.txt": {}}
	var trace []string
	nt := false
	nOps := rapid.IntRange(1, 6).Draw(t, "nOps")
	seedCtr := uint32(rapid.Uint32().Draw(t, "contentSeed"))
	for i := 0; i < nOps; i++ {
		name := rapid.SampledFrom(names).Draw(t, "name")
		path := dir + "/" + name
		m := model[name]
		kind := rapid.SampledFrom([]string{"put", "put", "post", "append", "append", "abort", "abort"}).Draw(t, "op")
		size := genSize().Draw(t, "size")
		seedCtr++
		body := content(seedCtr, size)
		q := rapid.SampledFrom([]string{"", "", "maxMB=1", "maxMB=2"}).Draw(t, "maxMB")
		chunk := MiB
		if q == "maxMB=2" {
			chunk = 2 * MiB
		}
		if size > chunk {
			nt = true
		}
		switch kind {
		case "put", "post":
			url := filerURL(p) + path
			if q != "" {
				url += "?" + q
			}
			var code int
			var rb []byte
			var err error
			if kind == "put" {
				code, _, rb, err = vlib.Do("PUT", url, map[string]string{"Content-Type": "application/x-verif"}, body)
			} else {
				code, rb, err = vlib.UploadMultipart(url, body, name, "application/x-verif", false, nil)
			}
			trace = append(trace, fmt.Sprintf("%s %s %s size=%d -> %d", strings.ToUpper(kind), name, q, size, code))
			if err != nil {
				t.Fatalf("%s: %v", trace[len(trace)-1], err)
			}
			if code/100 != 2 {
				t.Fatalf("%s: rejected: %s (history: %s)", trace[len(trace)-1], rb, strings.Join(trace, "; "))
			}
			m.data, m.exists = body, true
		case "append":
			nt = true
			url := filerURL(p) + path + "?op=append"
			if q != "" {
				url += "&" + q
			}
			method := rapid.SampledFrom([]string{"PUT", "POST"}).Draw(t, "appendMethod")
			var code int
			var rb []byte
			var err error
			if method == "PUT" {
				code, _, rb, err = vlib.Do("PUT", url, map[string]string{"Content-Type": "application/x-verif"}, body)
			} else {
				code, rb, err = vlib.UploadMultipart(url, body, name, "application/x-verif", false, nil)
			}
			trace = append(trace, fmt.Sprintf("APPEND(%s) %s %s size=%d -> %d", method, name, q, size, code))
			if err != nil {
				t.Fatalf("%s: %v", trace[len(trace)-1], err)
			}
			inlineTarget := m.exists && len(m.data) > 0 && len(m.data) < inlineLimit
			if code/100 == 2 {
				if m.exists {
					m.data = append(append([]byte{}, m.data...), body...)
				} else {
					m.data, m.exists = body, true
				}
			} else if inlineTarget {
				// "append to small file is not supported yet": an explicit refusal, nothing may change
				vlib.Class("append-to-inline-refused")
			} else {
				t.Fatalf("%s: append rejected: %s (history: %s)", trace[len(trace)-1], rb, strings.Join(trace, "; "))
			}
		case "abort":
			if size < 2 {
				size = 2 + size
				body = content(seedCtr, size)
			}
			nt = true
			// cut point: around chunk borders or anywhere
			k := rapid.OneOf(rapid.IntRange(0, size-1), rapid.SampledFrom([]int{0, 1, size - 1, size / 2, chunk - 1, chunk, chunk + 1, 2 * chunk, 2*chunk + 1})).Draw(t, "cut")
			if k >= size {
				k = size - 1
			}
			if k < 0 {
				k = 0
			}
			chunked := rapid.Bool().Draw(t, "chunkedEncoding")
			pq := path
			if q != "" {
				pq += "?" + q
			}
			if vlib.Known("C25-aborted-body-commits-truncated-file") {
				vlib.Excluded("C25-aborted-body-commits-truncated-file")
				trace = append(trace, "abort skipped (listed finding)")
				continue
			}
			code, err := abortedUpload(p, "PUT", pq, body, k, chunked)
			trace = append(trace, fmt.Sprintf("ABORTED-PUT %s %s declared=%d sent=%d chunked=%v -> %d", name, q, size, k, chunked, code))
			if err != nil {
				t.Fatalf("INCONCLUSIVE raw upload: %v", err)
			}
			if code/100 == 2 {
				t.Fatalf("%s: a body that ended after %d of %d bytes was answered %d (history: %s)", trace[len(trace)-1], k, size, code, strings.Join(trace, "; "))
			}
		}
		verify(t, p, path, m.data, m.exists, trace)
	}
	// the other file was not disturbed
	for _, n := range names {
		verify(t, p, dir+"/"+n, model[n].data, model[n].exists, trace)
	}
	if dead := cl.AllAlive(); dead != "" {
		t.Fatalf("%s died (history: %s)", dead, strings.Join(trace, "; "))
	}
	vlib.Case(label+": "+strings.Join(trace, "; "), nt, label)
}

func TestPropFilerWritesChunked(t *testing.T) {
	vlib.Check(t, 160, 2500, func(t *rapid.T) {
		cluster(t)
		runHistory(t, filer0, 0, "saveToFilerLimit0")
	})
}

func TestPropFilerWritesInline64(t *testing.T) {
	vlib.Check(t, 120, 2000, func(t *rapid.T) {
		cluster(t)
		runHistory(t, filer64, 64, "saveToFilerLimit64")
	})
}

// ---------------------------------------------------------------- append after gRPC create

func withFiler(p *vlib.Proc, fn func(c filer_pb.SeaweedFilerClient) error) error {
	return pb.WithGrpcFilerClient(fmt.Sprintf("127.0.0.1:%d", p.Port+10000), grpc.WithInsecure(), fn)
}

// storeChunk uploads data to a volume server and returns a chunk record.
func storeChunk(t interface{ Fatalf(string, ...any) }, c *vlib.Cluster, data []byte, offset int64) *filer_pb.FileChunk {
	ar, err := c.Assign("")
	if err != nil {
		t.Fatalf("INCONCLUSIVE assign: %v", err)
	}
	code, rb, err := vlib.UploadMultipart("http://"+ar.Url+"/"+ar.Fid, data, "chunk", "application/octet-stream", false, nil)
	if err != nil || code/100 != 2 {
		t.Fatalf("INCONCLUSIVE chunk upload: %d %s %v", code, rb, err)
	}
	var ur struct {
		ETag string `json:"eTag"`
	}
	json.Unmarshal(rb, &ur)
	return &filer_pb.FileChunk{FileId: ar.Fid, Offset: offset, Size: uint64(len(data)), Mtime: 1, ETag: ur.ETag}
}

func appendAfterGrpcCreate(t interface{ Fatalf(string, ...any) }, sizes []int, attrSize uint64, appendSize int, seed uint32) (path string, want []byte, code int) {
	c := cluster(t)
	dir := fmt.Sprintf("/c25/grpc-%d-%d", vlib.Shard(), atomic.AddInt64(&dirSeq, 1))
	name := "h.bin"
	var chunks []*filer_pb.FileChunk
	var off int64
	for i, n := range sizes {
		d := content(seed+uint32(i), n)
		chunks = append(chunks, storeChunk(t, c, d, off))
		want = append(want, d...)
		off += int64(n)
	}
	err := withFiler(filer0, func(fc filer_pb.SeaweedFilerClient) error {
		resp, err := fc.CreateEntry(context.Background(), &filer_pb.CreateEntryRequest{Directory: dir, Entry: &filer_pb.Entry{
			Name: name, Chunks: chunks,
			Attributes: &filer_pb.FuseAttributes{FileSize: attrSize, Mtime: 1, Crtime: 1, FileMode: 0644},
		}})
		if err == nil && resp.Error != "" {
			err = fmt.Errorf("%s", resp.Error)
		}
		return err
	})
	if err != nil {
		t.Fatalf("INCONCLUSIVE grpc CreateEntry: %v", err)
	}
	extra := content(seed+100, appendSize)
	path = dir + "/" + name
	code, _, _, err = vlib.Do("PUT", filerURL(filer0)+path+"?op=append", map[string]string{"Content-Type": "application/x-verif"}, extra)
	if err != nil {
		t.Fatalf("append: %v", err)
	}
	return path, append(want, extra...), code
}

func TestPropAppendAfterGrpcCreate(t *testing.T) {
	vlib.Check(t, 60, 800, func(t *rapid.T) {
		cluster(t)
		n := rapid.IntRange(1, 3).Draw(t, "nChunks")
		sizes := make([]int, n)
		total := 0
		for i := range sizes {
			sizes[i] = rapid.OneOf(rapid.IntRange(1, 200), rapid.IntRange(1, 70000)).Draw(t, "chunkSize")
			total += sizes[i]
		}
		// the FileSize attribute: exact, or stale (0 / smaller), as written by clients that do not maintain it
		attr := uint64(total)
		stale := rapid.IntRange(0, 3).Draw(t, "attr")
		if stale == 1 {
			attr = 0
		} else if stale == 2 {
			attr = uint64(rapid.IntRange(0, total).Draw(t, "attrSize"))
		} else if stale == 3 {
			// a file extended beyond its chunks (truncate to a bigger size on a mount, or
			// created with a size and no data): its current end is the FileSize attribute
			attr = uint64(total + rapid.OneOf(rapid.IntRange(1, 300), rapid.IntRange(1, 70000)).Draw(t, "sparseTail"))
		}
		if attr < uint64(total) && vlib.Known("C25-append-uses-stale-filesize-attribute") {
			vlib.Excluded("C25-append-uses-stale-filesize-attribute")
			attr = uint64(total)
		}
		appendSize := rapid.OneOf(rapid.IntRange(1, 300), rapid.IntRange(1, 2*MiB)).Draw(t, "appendSize")
		seed := rapid.Uint32().Draw(t, "seed")
		path, want, code := appendAfterGrpcCreate(t, sizes, attr, appendSize, seed)
		if attr > uint64(total) {
			// old content, zeros up to the old end, then the appended bytes
			extra := want[total:]
			want = append(append(append([]byte{}, want[:total]...), make([]byte, int(attr)-total)...), extra...)
		}
		desc := fmt.Sprintf("grpc-create chunks=%v attrFileSize=%d then APPEND size=%d -> %d", sizes, attr, appendSize, code)
		if code/100 != 2 {
			t.Fatalf("%s: append rejected", desc)
		}
		c2, _, body, err := get(filer0, path, "")
		if err != nil || c2 != 200 {
			t.Fatalf("%s: GET -> %d %v", desc, c2, err)
		}
		if !bytes.Equal(body, want) {
			t.Fatalf("%s: GET returned %d bytes, want %d (old content followed by the appended bytes); first difference at offset %d", desc, len(body), len(want), firstDiff(body, want))
		}
		cls := "append-after-grpc-create"
		if attr < uint64(total) {
			cls = "append-after-grpc-create-stale-attr"
		} else if attr > uint64(total) {
			cls = "append-after-grpc-create-sparse-tail"
		}
		vlib.Case(desc, true, cls)
	})
}

// ---------------------------------------------------------------- finding probes

func TestFindingAbortedBody(t *testing.T) {
	cluster(t)
	path := fmt.Sprintf("/c25/probe-%d/abort.bin", atomic.AddInt64(&dirSeq, 1))
	body := content(7, MiB+MiB/2)
	code, err := abortedUpload(filer0, "PUT", path, body, MiB+10, false)
	if err != nil {
		t.Fatalf("INCONCLUSIVE raw upload: %v", err)
	}
	c2, _, got, _ := get(filer0, path, "")
	rep := code/100 == 2 || c2 == 200
	vlib.Finding(t, "C25-aborted-body-commits-truncated-file", rep,
		fmt.Sprintf("PUT declaring Content-Length %d whose connection write side closed after %d bytes -> status %d; GET afterwards -> %d with %d bytes (want: not 2xx, and 404)", len(body), MiB+10, code, c2, len(got)))
}

func TestFindingAppendStaleAttr(t *testing.T) {
	path, want, code := appendAfterGrpcCreate(t, []int{100}, 0, 50, 3)
	c2, _, body, _ := get(filer0, path, "")
	rep := code/100 == 2 && (c2 != 200 || !bytes.Equal(body, want))
	vlib.Finding(t, "C25-append-uses-stale-filesize-attribute", rep,
		fmt.Sprintf("entry created over gRPC with one 100-byte chunk and FileSize attribute 0, then PUT ?op=append of 50 bytes -> %d; GET -> %d with %d bytes, first difference from old||new at offset %s", code, c2, len(body), strconv.Itoa(firstDiff(body, want))))
}
