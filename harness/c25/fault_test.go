// C25, chunk upload retry under volume-side faults: a volume that the master still
// offers for writes refuses them (marked read-only on the volume server, not yet
// reported by a heartbeat). The filer retries the chunk upload, first to the same
// file id and then with a freshly assigned one. Whatever path a chunk took, a
// request that is answered 2xx must have stored every byte.
package c25

import (
	"context"
	"encoding/json"
	"fmt"
	"os"
	"strings"
	"sync"
	"sync/atomic"
	"testing"
	"time"

	"github.com/chrislusf/seaweedfs/weed/operation"
	"github.com/chrislusf/seaweedfs/weed/pb/volume_server_pb"
	"google.golang.org/grpc"
	"pgregory.net/rapid"

	"verifharness/vlib"
)

var (
	fcOnce sync.Once
	fcl    *vlib.Cluster
	fcErr  error
	fcSeq  int64
)

// the fault cluster is separate from the one the other properties use, so that the
// refused volumes never disturb their histories
func faultCluster(t interface{ Fatalf(string, ...any) }) *vlib.Cluster {
	fcOnce.Do(func() {
		fcl, fcErr = vlib.StartCluster(vlib.ClusterOpts{Volumes: 1, Filer: true, FilerArgs: []string{"-maxMB=1"}})
		if fcErr != nil {
			return
		}
		// first write grows the volumes
		code, _, rb, err := vlib.Do("PUT", fcl.FilerURL()+"/c25fault/warmup", nil, []byte("warm"))
		if err != nil || code/100 != 2 {
			fcErr = fmt.Errorf("warm-up write: %d %s %v", code, rb, err)
			return
		}
		// more volumes in the default layout, so that some can refuse while others accept
		code, _, rb, err = vlib.Do("GET", fcl.MasterURL()+"/vol/grow?count=6&replication=000", nil, nil)
		if err != nil || code/100 != 2 {
			fcErr = fmt.Errorf("vol/grow: %d %s %v", code, rb, err)
		}
	})
	if fcErr != nil {
		t.Fatalf("INCONCLUSIVE fault cluster start: %v", fcErr)
	}
	return fcl
}

// writables returns the volume ids the master currently offers for writes in the default layout.
func writables(c *vlib.Cluster) ([]uint32, error) {
	code, _, body, err := vlib.Do("GET", c.MasterURL()+"/dir/status", nil, nil)
	if err != nil || code != 200 {
		return nil, fmt.Errorf("dir/status: %d %v", code, err)
	}
	var st struct {
		Topology struct {
			Layouts []struct {
				Collection  string   `json:"collection"`
				Replication string   `json:"replication"`
				Ttl         string   `json:"ttl"`
				Writables   []uint32 `json:"writables"`
			}
		}
	}
	if err := json.Unmarshal(body, &st); err != nil {
		return nil, fmt.Errorf("dir/status: %v in %s", err, body)
	}
	for _, l := range st.Topology.Layouts {
		if l.Collection == "" && l.Ttl == "" {
			return l.Writables, nil
		}
	}
	return nil, nil
}

func markVolumes(c *vlib.Cluster, vids []uint32, readonly bool) error {
	return operation.WithVolumeServerClient(c.VolumeAddr(0), grpc.WithInsecure(), func(client volume_server_pb.VolumeServerClient) error {
		for _, vid := range vids {
			var err error
			if readonly {
				_, err = client.VolumeMarkReadonly(context.Background(), &volume_server_pb.VolumeMarkReadonlyRequest{VolumeId: vid})
			} else {
				_, err = client.VolumeMarkWritable(context.Background(), &volume_server_pb.VolumeMarkWritableRequest{VolumeId: vid})
			}
			if err != nil {
				return err
			}
		}
		return nil
	})
}

func logSize(p *vlib.Proc) int64 {
	fi, err := os.Stat(p.LogPath)
	if err != nil {
		return 0
	}
	return fi.Size()
}

// refusedUploads counts the chunk uploads the filer logged as failed since the log had size from.
func refusedUploads(p *vlib.Proc, from int64) int {
	b, _ := os.ReadFile(p.LogPath)
	if int64(len(b)) < from {
		return 0
	}
	return strings.Count(string(b[from:]), "is read only")
}

// TestPropUploadRetryUnderVolumeFault: k of the n volumes the master offers refuse writes;
// files of 1-3 chunks are written through the filer while the master does not know yet.
func TestPropUploadRetryUnderVolumeFault(t *testing.T) {
	vlib.Check(t, 12, 160, func(t *rapid.T) {
		c := faultCluster(t)
		p := c.FilerProc
		// the volumes the master offers right now (earlier cases' volumes come back with a later heartbeat)
		var w []uint32
		for i := 0; i < 15; i++ {
			var err error
			if w, err = writables(c); err != nil {
				t.Fatalf("INCONCLUSIVE %v", err)
			}
			if len(w) >= 3 {
				break
			}
			time.Sleep(time.Second)
		}
		if len(w) < 2 {
			vlib.Class("fault-skipped-too-few-writable-volumes")
			return
		}
		// refuse a generated subset, leaving at least one volume that accepts
		nRefuse := rapid.IntRange(1, len(w)-1).Draw(t, "nRefuse")
		perm := rapid.Permutation(w).Draw(t, "refuseOrder")
		refused := perm[:nRefuse]
		if err := markVolumes(c, refused, true); err != nil {
			t.Fatalf("INCONCLUSIVE mark read-only: %v", err)
		}
		restored := false
		restore := func() {
			if !restored {
				restored = true
				markVolumes(c, refused, false)
			}
		}
		defer restore()

		dir := fmt.Sprintf("/c25fault/%d-%d", vlib.Shard(), atomic.AddInt64(&fcSeq, 1))
		seed := rapid.Uint32().Draw(t, "contentSeed")
		nFiles := rapid.IntRange(1, 3).Draw(t, "nFiles")
		var trace []string
		trace = append(trace, fmt.Sprintf("volumes %v of %v refuse writes", refused, w))
		retried, acked, failed := 0, 0, 0
		for i := 0; i < nFiles; i++ {
			size := rapid.SampledFrom([]int{1, 700, MiB - 1, MiB, MiB + 1, 2*MiB + 5, 3 * MiB}).Draw(t, "size")
			seed++
			body := content(seed, size)
			path := fmt.Sprintf("%s/f%d.bin", dir, i)
			method := rapid.SampledFrom([]string{"PUT", "POST"}).Draw(t, "method")
			from := logSize(p)
			var code int
			var rb []byte
			var err error
			if method == "PUT" {
				code, _, rb, err = vlib.Do("PUT", filerURL(p)+path, map[string]string{"Content-Type": "application/x-verif"}, body)
			} else {
				code, rb, err = vlib.UploadMultipart(filerURL(p)+path, body, "f.bin", "application/x-verif", false, nil)
			}
			n := refusedUploads(p, from)
			retried += n
			trace = append(trace, fmt.Sprintf("%s f%d size=%d -> %d (%d chunk uploads refused)", method, i, size, code, n))
			if err != nil {
				t.Fatalf("INCONCLUSIVE %s: %v", trace[len(trace)-1], err)
			}
			if code/100 == 2 {
				acked++
				// acknowledged: every byte must be there, whatever retries it took
				verify(t, p, path, body, true, trace)
			} else {
				// all retries of some chunk hit refusing volumes: the request failed and said so
				failed++
				_ = rb
				verify(t, p, path, nil, false, trace)
			}
		}
		restore()
		if dead := c.AllAlive(); dead != "" {
			t.Fatalf("%s died (history: %s)", dead, strings.Join(trace, "; "))
		}
		if failed > 0 {
			vlib.Class("fault-request-failed-and-reported")
		}
		if retried > 0 && acked > 0 {
			vlib.Class("fault-acknowledged-after-refused-chunk-upload")
		}
		vlib.Case("fault: "+strings.Join(trace, "; "), retried > 0, "volume-fault")
	})
}
