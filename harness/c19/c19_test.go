//go:build verif
// +build verif

// C19 Directory listings are exact, ordered and paginate completely.
//
// Generated directory contents (some entries expired by TTL) are stored in a real
// Filer over leveldb, leveldb2, leveldb3 (plain and bucket paths) and over an
// in-memory store without native prefix listing; generated requests are issued
// through Filer.StreamListDirectoryEntries, Filer.ListDirectoryEntries and the
// gRPC handler FilerServer.ListEntries and compared with a reference listing.
package c19

import (
	"context"
	"fmt"
	"os"
	"path/filepath"
	"sort"
	"strconv"
	"strings"
	"sync"
	"testing"
	"time"

	"github.com/chrislusf/seaweedfs/weed/filer"
	"github.com/chrislusf/seaweedfs/weed/pb/filer_pb"
	weed_server "github.com/chrislusf/seaweedfs/weed/server"
	"github.com/chrislusf/seaweedfs/weed/util"
	"google.golang.org/grpc/metadata"
	"pgregory.net/rapid"

	"verifharness/c18/fkit"
	"verifharness/vlib"
)

const (
	keyStartBeforePrefix = "C19-leveldb-start-before-prefix"
	keyGenericRefill     = "C19-generic-prefix-refill"
	keySplitPattern      = "C19-splitpattern"
	keyLastFileName      = "C19-lastfilename-reset"
)

func TestMain(m *testing.M) {
	fkit.QuietGlog(vlib.TempDir())
	vlib.Rule("C19: directory contents = 0-14 of 17 names ({a,b}^<=3, 'a.b', 'a b', 'ab*'), each a file or directory, files optionally with a live TTL or already expired; requests = (start in names or not, inclusive, limit 1-6 or large, one of prefix / name pattern / none, optional exclusion pattern) through StreamListDirectoryEntries, ListDirectoryEntries and the gRPC ListEntries handler, then page-by-page enumeration following the last returned name; stores leveldb, leveldb2, leveldb3 (plain and /buckets/x) and an in-memory store that forces FilerStoreWrapper.prefixFilterEntries. Non-trivial = request with a non-empty prefix/pattern and a start name, or an expired entry inside the scanned range. Distinct = distinct (store, contents, request).")
	vlib.Assume("Name patterns follow path/filepath.Match (the function the filer itself applies); prefix and namePattern are not combined in one request (documented as mutually exclusive in filer_search.go).")
	vlib.Assume("Expired entries are made with a creation time in 2001 and ttl 1 s, live TTL entries with ttl 2e9 s; no wall-clock value enters the oracle.")
	vlib.Main(m)
}

// ---------------------------------------------------------------- environment

type env struct {
	kind string
	dir  string
	uses int
	f    *filer.Filer
	fs   *weed_server.FilerServer
	mem  *fkit.MemStore
}

var (
	envMu   sync.Mutex
	envs    = map[string]*env{}
	caseSeq int
	quiet   sync.Once
)

const envLifetime = 20000

func getEnv(kind string) *env {
	envMu.Lock()
	defer envMu.Unlock()
	if e := envs[kind]; e != nil {
		if e.uses < envLifetime {
			e.uses++
			return e
		}
		e.f.Shutdown()
		os.RemoveAll(e.dir)
		delete(envs, kind)
	}
	quiet.Do(func() { fkit.QuietGlog(vlib.TempDir()) })
	dir := vlib.TempDir()
	store, err := fkit.NewStore(kind, dir)
	if err != nil {
		panic(err)
	}
	f := fkit.NewFiler(store)
	e := &env{kind: kind, dir: dir, f: f, fs: fkit.NewServer(f)}
	e.mem, _ = store.(*fkit.MemStore)
	envs[kind] = e
	return e
}

func newDir(bucket bool) string {
	envMu.Lock()
	defer envMu.Unlock()
	caseSeq++
	if bucket {
		return "/buckets/x/d" + strconv.Itoa(caseSeq)
	}
	return "/t19/d" + strconv.Itoa(caseSeq)
}

// ---------------------------------------------------------------- contents

const (
	plain   = 0
	liveTTL = 1
	expired = 2
)

type item struct {
	Name string
	Dir  bool
	TTL  int
}

func (it item) String() string {
	s := it.Name
	if it.Dir {
		s += "/"
	}
	switch it.TTL {
	case liveTTL:
		s += "(ttl)"
	case expired:
		s += "(expired)"
	}
	return s
}

var (
	t2001 = time.Date(2001, 1, 1, 0, 0, 0, 0, time.UTC)
	t2020 = time.Date(2020, 1, 1, 0, 0, 0, 0, time.UTC)
)

func (e *env) put(dir string, it item) error {
	en := &filer.Entry{FullPath: util.NewFullPath(dir, it.Name), Attr: filer.Attr{Mtime: t2020, Crtime: t2020, Mode: 0644, Uid: 1, Gid: 1}}
	if it.Dir {
		en.Mode = os.ModeDir | 0755
	}
	switch it.TTL {
	case liveTTL:
		en.TtlSec = 2000000000
	case expired:
		en.Crtime, en.Mtime, en.TtlSec = t2001, t2001, 1
	}
	return e.f.Store.InsertEntry(context.Background(), en)
}

func (e *env) putAll(dir string, items []item) error {
	for _, it := range items {
		if err := e.put(dir, it); err != nil {
			return err
		}
	}
	return nil
}

var allNames = func() []string {
	var out []string
	var rec func(p string, d int)
	rec = func(p string, d int) {
		if d == 0 {
			return
		}
		for _, c := range []string{"a", "b"} {
			out = append(out, p+c)
			rec(p+c, d-1)
		}
	}
	rec("", 3)
	out = append(out, "a.b", "a b", "ab*")
	sort.Strings(out)
	return out
}()

// ---------------------------------------------------------------- requests and the reference listing

type request struct {
	API       string // stream list grpc
	Start     string
	Inclusive bool
	Limit     int
	Prefix    string
	Pattern   string
	Exclude   string
}

func (r request) String() string {
	return fmt.Sprintf("%s(start=%q incl=%v limit=%d prefix=%q pattern=%q exclude=%q)", r.API, r.Start, r.Inclusive, r.Limit, r.Prefix, r.Pattern, r.Exclude)
}

func match(pattern, name string) bool {
	ok, err := filepath.Match(pattern, name)
	return err == nil && ok
}

// matches returns all live names selected by r, in order, ignoring the limit.
func matches(items []item, r request) []string {
	var out []string
	for _, it := range items {
		n := it.Name
		if it.TTL == expired {
			continue
		}
		if n < r.Start || n == r.Start && !r.Inclusive {
			continue
		}
		if !strings.HasPrefix(n, r.Prefix) {
			continue
		}
		if r.Pattern != "" && !match(r.Pattern, n) {
			continue
		}
		if r.Exclude != "" && match(r.Exclude, n) {
			continue
		}
		out = append(out, n)
	}
	sort.Strings(out)
	return out
}

func (r request) effLimit() int {
	if r.API == "grpc" && r.Limit == 0 {
		return 1000 // FilerOption.DirListingLimit of the harness server
	}
	return r.Limit
}

// wildcardPrefix is the literal part of a pattern before its first
// meta-character (the part that can be pushed down to the store as a prefix).
func wildcardPrefix(p string) string {
	if i := strings.IndexAny(p, "*?[\\"); i >= 0 {
		return p[:i]
	}
	return p
}

// splitPatternClass reports whether pattern belongs to the class handled wrongly
// by filer.splitPattern (listed finding): no '*' and no '?', or a '?', '[' or
// '\\' in front of the first '*'.
func splitPatternClass(p string) bool {
	if p == "" {
		return false
	}
	star := strings.Index(p, "*")
	if star >= 0 {
		return strings.ContainsAny(p[:star], "?[\\")
	}
	q := strings.Index(p, "?")
	if q >= 0 {
		return strings.ContainsAny(p[:q], "[\\")
	}
	return true
}

// ---------------------------------------------------------------- calling the real thing

type fakeStream struct {
	names []string
	ctx   context.Context
}

func (s *fakeStream) Send(r *filer_pb.ListEntriesResponse) error {
	if len(s.names) > 5000 {
		return fmt.Errorf("harness: more than 5000 entries sent for a directory of at most 17 (listing does not terminate)")
	}
	s.names = append(s.names, r.Entry.Name)
	return nil
}
func (s *fakeStream) Context() context.Context     { return s.ctx }
func (s *fakeStream) SetHeader(metadata.MD) error  { return nil }
func (s *fakeStream) SendHeader(metadata.MD) error { return nil }
func (s *fakeStream) SetTrailer(metadata.MD)       {}
func (s *fakeStream) SendMsg(m interface{}) error  { return nil }
func (s *fakeStream) RecvMsg(m interface{}) error  { return nil }

type result struct {
	names   []string
	hasMore bool   // list API
	last    string // stream API: returned lastFileName
	err     error
}

func (e *env) call(dir string, r request) result {
	ctx := context.Background()
	if e.mem != nil {
		e.mem.ResetCalls()
	}
	var res result
	switch r.API {
	case "stream":
		n := 0
		res.last, res.err = e.f.StreamListDirectoryEntries(ctx, util.FullPath(dir), r.Start, r.Inclusive, int64(r.Limit), r.Prefix, r.Pattern, r.Exclude, func(en *filer.Entry) bool {
			n++
			if n > 5000 {
				return false
			}
			if d, _ := en.DirAndName(); d != dir {
				res.err = fmt.Errorf("entry %s is not in %s", en.FullPath, dir)
			}
			res.names = append(res.names, en.Name())
			return true
		})
		if n > 5000 && res.err == nil {
			res.err = fmt.Errorf("harness: more than 5000 entries returned for a directory of at most 17")
		}
	case "list":
		var entries []*filer.Entry
		entries, res.hasMore, res.err = e.f.ListDirectoryEntries(ctx, util.FullPath(dir), r.Start, r.Inclusive, int64(r.Limit), r.Prefix, r.Pattern, r.Exclude)
		for _, en := range entries {
			res.names = append(res.names, en.Name())
		}
	case "grpc":
		st := &fakeStream{ctx: ctx}
		res.err = e.fs.ListEntries(&filer_pb.ListEntriesRequest{Directory: dir, Prefix: r.Prefix, StartFromFileName: r.Start, InclusiveStartFrom: r.Inclusive, Limit: uint32(r.Limit)}, st)
		res.names = st.names
	}
	return res
}

func eq(a, b []string) bool {
	if len(a) != len(b) {
		return false
	}
	for i := range a {
		if a[i] != b[i] {
			return false
		}
	}
	return true
}

// checkRequest issues r and compares with the reference; returns "" or a description of the violation.
func (e *env) checkRequest(dir string, items []item, r request) string {
	if err := e.putAll(dir, items); err != nil { // (re-)insert: listing removes expired entries as a side effect
		return "setup: " + err.Error()
	}
	all := matches(items, r)
	want := all
	if len(want) > r.effLimit() {
		want = want[:r.effLimit()]
	}
	res := e.call(dir, r)
	if res.err != nil {
		return fmt.Sprintf("%s failed: %v (expected %q)", r, res.err, want)
	}
	if !eq(res.names, want) {
		return fmt.Sprintf("%s returned %q, expected %q", r, res.names, want)
	}
	if r.API == "list" && res.hasMore != (len(all) > r.Limit) {
		return fmt.Sprintf("%s returned hasMore=%v with %d matches", r, res.hasMore, len(all))
	}
	if r.API == "stream" && len(res.names) > 0 {
		// the returned lastFileName is what the gRPC handler continues from
		lastName := res.names[len(res.names)-1]
		rest := all[len(res.names):]
		if res.last < lastName || len(rest) > 0 && rest[0] <= res.last {
			if !(vlib.Known(keyLastFileName) && res.last == "") {
				return fmt.Sprintf("%s returned %q and lastFileName=%q: continuing after it would repeat or skip entries (remaining matches %q)", r, res.names, res.last, rest)
			}
		}
	}
	// live entries must survive a listing
	for _, it := range items {
		if it.TTL != expired {
			if en, err := e.f.Store.FindEntry(context.Background(), util.NewFullPath(dir, it.Name)); err != nil || en == nil {
				return fmt.Sprintf("live entry %s disappeared after %s: %v", it, r, err)
			}
		}
	}
	return ""
}

// checkPagination follows the last returned name page by page.
func (e *env) checkPagination(dir string, items []item, r request) (pages int, msg string) {
	if err := e.putAll(dir, items); err != nil {
		return 0, "setup: " + err.Error()
	}
	all := matches(items, r)
	var got []string
	cur := r
	for {
		if key := excludedByKnown(e.kind, items, cur); key != "" {
			// a follow-up page request falls into the input class of a listed finding: stop following
			vlib.Excluded(key)
			return pages, ""
		}
		if pages > 0 {
			// listing removes the expired entries it meets; put them back so that every page request runs against
			// the stated contents (the known-finding input classes are defined on those)
			if err := e.putAll(dir, items); err != nil {
				return pages, "setup: " + err.Error()
			}
		}
		res := e.call(dir, cur)
		if res.err != nil {
			return pages, fmt.Sprintf("page %d %s failed: %v", pages+1, cur, res.err)
		}
		if len(res.names) == 0 {
			break
		}
		pages++
		if len(res.names) > cur.effLimit() {
			return pages, fmt.Sprintf("page %d %s returned %d entries: %q", pages, cur, len(res.names), res.names)
		}
		got = append(got, res.names...)
		if pages > len(all)+2 {
			return pages, fmt.Sprintf("pagination of %s does not terminate: %d pages so far, got %q, expected %q", r, pages, got, all)
		}
		cur.Start, cur.Inclusive = res.names[len(res.names)-1], false
	}
	if !eq(got, all) {
		return pages, fmt.Sprintf("paginating %s enumerated %q, expected %q", r, got, all)
	}
	return pages, ""
}

// ---------------------------------------------------------------- generators

var variants = []struct {
	kind   string
	bucket bool
}{
	{fkit.LevelDB, false}, {fkit.LevelDB2, false}, {fkit.LevelDB3, false}, {fkit.LevelDB3, true}, {fkit.LevelDB, true},
	{fkit.Mem, false}, {fkit.Mem, false},
}

var (
	otherStarts = []string{"0", "a ", "a.", "aab0", "ab0", "b", "bbbb", "zz", "~", "ab", "aa"}
	prefixes    = []string{"a", "ab", "zz", "b", "a.", "aa", "ab*", "ba"}
	patterns    = []string{"a*", "*b", "a?b", "*", "?", "a*b", "*a*", "??", "b*"}
	patternsBad = []string{"ab", "?b*", "a[ab]", "a?*", "[ab]*", "a.b"} // handled wrongly by filer.splitPattern
	excludes    = []string{"*b", "a*", "ab", "?", "a?*", "*a", "a[ab]*"}
)

func drawItems(t *rapid.T) []item {
	n := rapid.IntRange(0, 14).Draw(t, "n")
	perm := rapid.Permutation(allNames).Draw(t, "names")
	items := make([]item, 0, n)
	for _, name := range perm[:n] {
		it := item{Name: name}
		k := rapid.IntRange(0, 9).Draw(t, "kind")
		switch {
		case k < 2:
			it.Dir = true
		case k < 4:
			it.TTL = liveTTL
		case k < 7:
			it.TTL = expired
		}
		items = append(items, it)
	}
	sort.Slice(items, func(i, j int) bool { return items[i].Name < items[j].Name })
	return items
}

func drawRequest(t *rapid.T, items []item) request {
	var r request
	r.API = rapid.SampledFrom([]string{"stream", "stream", "list", "grpc"}).Draw(t, "api")
	switch s := rapid.IntRange(0, 9).Draw(t, "startkind"); {
	case s < 3:
	case s < 7 && len(items) > 0:
		r.Start = items[rapid.IntRange(0, len(items)-1).Draw(t, "startidx")].Name
	default:
		r.Start = rapid.SampledFrom(otherStarts).Draw(t, "start")
	}
	r.Inclusive = rapid.Bool().Draw(t, "inclusive")
	if rapid.IntRange(0, 3).Draw(t, "biglimit") == 0 {
		r.Limit = 100
		if r.API == "grpc" && rapid.Bool().Draw(t, "limit0") {
			r.Limit = 0
		}
	} else {
		r.Limit = rapid.IntRange(1, 6).Draw(t, "limit")
	}
	f := rapid.IntRange(0, 9).Draw(t, "filter")
	switch {
	case f < 3:
	case f < 6 || r.API == "grpc":
		r.Prefix = rapid.SampledFrom(prefixes).Draw(t, "prefix")
	case f < 9:
		r.Pattern = rapid.SampledFrom(patterns).Draw(t, "pattern")
	default:
		r.Pattern = rapid.SampledFrom(patternsBad).Draw(t, "badpattern")
	}
	if r.API != "grpc" && rapid.IntRange(0, 3).Draw(t, "hasexclude") == 0 {
		r.Exclude = rapid.SampledFrom(excludes).Draw(t, "exclude")
	}
	return r
}

// excludedByKnown reports the listed finding (if any) whose input class contains (kind, items, r).
func excludedByKnown(kind string, items []item, r request) string {
	effPrefix := r.Prefix
	if r.Pattern != "" {
		if splitPatternClass(r.Pattern) {
			if vlib.Known(keySplitPattern) {
				return keySplitPattern
			}
		}
		if p := wildcardPrefix(r.Pattern); p != "" {
			effPrefix = p
		}
	}
	if kind != fkit.Mem && effPrefix != "" && r.Start != "" && r.Start < effPrefix && vlib.Known(keyStartBeforePrefix) {
		return keyStartBeforePrefix
	}
	finalEmpty, midEmpty, genericUnsafe := simulate(kind == fkit.Mem, items, r)
	if genericUnsafe && vlib.Known(keyGenericRefill) {
		return keyGenericRefill
	}
	if vlib.Known(keyLastFileName) && (midEmpty || r.API == "grpc" && finalEmpty && len(matches(items, r)) > 0) {
		return keyLastFileName
	}
	return ""
}

// simulate follows the read / refill chain of StreamListDirectoryEntries (first
// a read of limit entries, then one more read per batch of expired or
// filtered-out entries) far enough to decide whether a request belongs to the
// input class of a listed finding. It is used for nothing else.
//
//	finalEmpty  the chain ends with a read that finds nothing; the lastFileName
//	            handed back is then "" although entries were returned
//	            (C19-lastfilename-reset: the gRPC handler continues from "")
//	midEmpty    such an empty read is followed by the refill for filtered-out
//	            entries, which then restarts from "" (same finding)
//	generic     only for stores without native prefix listing: some read asks
//	            prefixFilterEntries for n entries while the next n entries of the
//	            directory do not all carry the prefix, so it needs a second page
//	            (C19-generic-prefix-refill)
func simulate(generic bool, items []item, r request) (finalEmpty, midEmpty, genericUnsafe bool) {
	eff := r.Prefix
	rest := ""
	if r.Pattern != "" {
		eff = wildcardPrefix(r.Pattern)
		rest = r.Pattern
	}
	type ent struct{ prefixed, expired, missed bool }
	var seq []ent
	for _, it := range items {
		if it.Name < r.Start || it.Name == r.Start && !r.Inclusive {
			continue
		}
		pre := strings.HasPrefix(it.Name, eff)
		if !pre && !(generic && eff != "") {
			continue
		}
		missed := rest != "" && !match(rest, it.Name) || r.Exclude != "" && match(r.Exclude, it.Name)
		seq = append(seq, ent{pre, it.TTL == expired, missed})
	}
	i, lastEmpty := 0, false
	read := func(n int) (exp, miss int) {
		if i+n <= len(seq) {
			for _, x := range seq[i : i+n] {
				if !x.prefixed {
					genericUnsafe = true
				}
			}
		}
		cnt := 0
		for cnt < n && i < len(seq) {
			if seq[i].prefixed {
				if seq[i].expired {
					exp++
				} else if seq[i].missed {
					miss++
				}
			}
			i++
			cnt++
		}
		lastEmpty = cnt == 0
		return
	}
	inner := func(n int) (miss int) {
		exp, m := read(n)
		miss += m
		for exp > 0 && !genericUnsafe {
			exp, m = read(exp)
			miss += m
		}
		return
	}
	lim := r.effLimit()
	if r.API == "list" {
		lim++
	}
	for miss := inner(lim); miss > 0 && !genericUnsafe; {
		if lastEmpty {
			return true, true, genericUnsafe
		}
		miss = inner(miss)
	}
	return lastEmpty, false, genericUnsafe
}

// expiredInRange: an expired entry lies inside the range the listing has to scan.
func expiredInRange(items []item, r request) bool {
	all := matches(items, r)
	full := len(all) >= r.effLimit() && r.effLimit() > 0
	lastWanted := ""
	if full {
		lastWanted = all[r.effLimit()-1]
	}
	p := r.Prefix
	if r.Pattern != "" {
		p = wildcardPrefix(r.Pattern)
	}
	for _, it := range items {
		if it.TTL != expired || it.Name < r.Start || it.Name == r.Start && !r.Inclusive || !strings.HasPrefix(it.Name, p) {
			continue
		}
		if !full || it.Name < lastWanted {
			return true
		}
	}
	return false
}

func describe(label string, items []item, r request) string {
	var s []string
	for _, it := range items {
		s = append(s, it.String())
	}
	return fmt.Sprintf("store=%s dir={%s} %s", label, strings.Join(s, " "), r)
}

func classify(kind string, items []item, r request, pages int) (nontrivial bool, classes []string) {
	filter := r.Prefix != "" || r.Pattern != ""
	exp := expiredInRange(items, r)
	nontrivial = filter && r.Start != "" || exp
	classes = append(classes, "api-"+r.API)
	if r.Prefix != "" {
		classes = append(classes, "prefix")
	}
	if r.Pattern != "" {
		classes = append(classes, "pattern")
	}
	if r.Exclude != "" {
		classes = append(classes, "exclude")
	}
	if exp {
		classes = append(classes, "expired-in-range")
	}
	eff := r.Prefix
	if r.Pattern != "" {
		eff = wildcardPrefix(r.Pattern)
	}
	if r.Start != "" && eff != "" {
		if r.Start < eff {
			classes = append(classes, "start<prefix")
		} else {
			classes = append(classes, "start>=prefix")
		}
	}
	all := matches(items, r)
	switch {
	case len(all) == 0:
		classes = append(classes, "matches-0")
	case len(all) > r.effLimit():
		classes = append(classes, "matches>limit")
	default:
		classes = append(classes, "matches<=limit")
	}
	switch {
	case pages >= 3:
		classes = append(classes, "pages>=3")
	case pages == 2:
		classes = append(classes, "pages-2")
	}
	return
}

func TestPropListing(t *testing.T) {
	vlib.Check(t, 6000, 150000, func(t *rapid.T) {
		v := rapid.SampledFrom(variants).Draw(t, "store")
		label := v.kind
		if v.bucket {
			label += "/bucket"
		}
		e := getEnv(v.kind)
		dir := newDir(v.bucket)
		items := drawItems(t)
		nreq := rapid.IntRange(1, 3).Draw(t, "nreq")
		for i := 0; i < nreq; i++ {
			r := drawRequest(t, items)
			if key := excludedByKnown(v.kind, items, r); key != "" {
				vlib.Excluded(key)
				continue
			}
			if msg := e.checkRequest(dir, items, r); msg != "" {
				t.Fatalf("%s\n  case: %s", msg, describe(label, items, r))
			}
			pages, msg := e.checkPagination(dir, items, r)
			if msg != "" {
				t.Fatalf("%s\n  case: %s", msg, describe(label, items, r))
			}
			nt, cl := classify(v.kind, items, r, pages)
			vlib.Case(describe(label, items, r), nt, append([]string{label}, cl...)...)
		}
		// (the directory is left in place: a store consisting mostly of tombstones makes leveldb iteration slow)
	})
}

// ---------------------------------------------------------------- bounded-exhaustive: 6 names x all requests

var exNames = []string{"a", "ab", "abb", "b", "ba", "a.b"}

func TestPropListingExhaustive(t *testing.T) {
	// contents: every subset of 6 names, in two TTL colourings (all plain; every second present entry expired);
	// requests: every (api, start, inclusive, limit, filter) combination below.
	starts := []string{"", "a", "ab", "abb", "b", "ba", "a.b", "0", "aa", "zz"}
	limits := []int{1, 2, 3, 100}
	type filt struct{ prefix, pattern, exclude string }
	filters := []filt{{}, {prefix: "a"}, {prefix: "ab"}, {prefix: "zz"}, {pattern: "a*"}, {pattern: "*b"}, {pattern: "a?b"}, {exclude: "*b"}, {pattern: "a*", exclude: "ab"}}
	if !vlib.Thorough() {
		// quick tier: a fixed slice of the space
		limits = []int{1, 2, 100}
		filters = []filt{{}, {prefix: "ab"}, {pattern: "a*"}, {pattern: "*b", exclude: "ab*"}}
	}
	kinds := []string{fkit.LevelDB, fkit.LevelDB2, fkit.LevelDB3, fkit.Mem}
	if !vlib.Thorough() {
		kinds = []string{fkit.LevelDB2, fkit.Mem}
	}
	idx := 0
	for subset := 0; subset < 1<<len(exNames); subset++ {
		for colouring := 0; colouring < 2; colouring++ {
			var items []item
			k := 0
			for i, n := range exNames {
				if subset&(1<<i) != 0 {
					it := item{Name: n}
					if colouring == 1 && k%2 == 0 {
						it.TTL = expired
					}
					k++
					items = append(items, it)
				}
			}
			if colouring == 1 && len(items) == 0 {
				continue
			}
			sort.Slice(items, func(i, j int) bool { return items[i].Name < items[j].Name })
			idx++
			if !vlib.ShardOwns(idx) {
				continue
			}
			for _, kind := range kinds {
				e := getEnv(kind)
				dir := newDir(false)
				for _, api := range []string{"stream", "list", "grpc"} {
					for _, st := range starts {
						for _, incl := range []bool{false, true} {
							for _, lim := range limits {
								for _, f := range filters {
									if api == "grpc" && (f.pattern != "" || f.exclude != "") {
										continue
									}
									r := request{API: api, Start: st, Inclusive: incl, Limit: lim, Prefix: f.prefix, Pattern: f.pattern, Exclude: f.exclude}
									if key := excludedByKnown(kind, items, r); key != "" {
										vlib.Excluded(key)
										continue
									}
									if msg := e.checkRequest(dir, items, r); msg != "" {
										t.Fatalf("%s\n  case: %s", msg, describe(kind, items, r))
									}
									pages := 0
									if lim <= 2 {
										var msg string
										if pages, msg = e.checkPagination(dir, items, r); msg != "" {
											t.Fatalf("%s\n  case: %s", msg, describe(kind, items, r))
										}
									}
									nt, cl := classify(kind, items, r, pages)
									vlib.Case(describe(kind, items, r), nt, append([]string{"exhaustive-" + kind}, cl...)...)
								}
							}
						}
					}
				}
			}
		}
	}
	vlib.Exhaustive(fmt.Sprintf("listing(all subsets of %d names x 2 TTL colourings x %d stores x 3 APIs x %d starts x 2 x %d limits x %d filters)", len(exNames), len(kinds), len(starts), len(limits), len(filters)), true)
}

// ---------------------------------------------------------------- finding probes

func probe(t *testing.T, key, kind string, items []item, r request) {
	e := getEnv(kind)
	dir := "/t19/probe-" + key
	_ = e.f.Store.DeleteFolderChildren(context.Background(), util.FullPath(dir))
	if err := e.putAll(dir, items); err != nil {
		t.Fatal(err)
	}
	want := matches(items, r)
	if len(want) > r.effLimit() {
		want = want[:r.effLimit()]
	}
	res := e.call(dir, r)
	bad := res.err != nil || !eq(res.names, want)
	detail := fmt.Sprintf("%s: returned %q err=%v, expected %q", describe(kind, items, r), res.names, res.err, want)
	if len(res.names) > 12 {
		detail = fmt.Sprintf("%s: returned %d entries err=%v, expected %q", describe(kind, items, r), len(res.names), res.err, want)
	}
	vlib.Finding(t, key, bad, detail)
}

func TestFindingStartBeforePrefix(t *testing.T) {
	for _, kind := range []string{fkit.LevelDB, fkit.LevelDB2, fkit.LevelDB3} {
		probe(t, keyStartBeforePrefix, kind, []item{{Name: "a"}, {Name: "ab"}, {Name: "abb"}}, request{API: "grpc", Start: "a", Limit: 10, Prefix: "ab"})
	}
}

func TestFindingGenericPrefixRefill(t *testing.T) {
	probe(t, keyGenericRefill, fkit.Mem, []item{{Name: "a"}, {Name: "b"}, {Name: "c"}, {Name: "d"}}, request{API: "grpc", Limit: 2, Prefix: "zz"})
}

func TestFindingSplitPattern(t *testing.T) {
	probe(t, keySplitPattern, fkit.LevelDB2, []item{{Name: "a"}, {Name: "ab"}, {Name: "abb"}}, request{API: "list", Limit: 10, Pattern: "ab"})
	probe(t, keySplitPattern, fkit.LevelDB2, []item{{Name: "a"}, {Name: "ab"}, {Name: "abb"}}, request{API: "list", Limit: 10, Pattern: "a?*"})
}

func TestFindingLastFileNameReset(t *testing.T) {
	probe(t, keyLastFileName, fkit.LevelDB2, []item{{Name: "a"}, {Name: "b", TTL: expired}}, request{API: "grpc", Limit: 10})
	probe(t, keyLastFileName, fkit.LevelDB2, []item{{Name: "a"}, {Name: "b"}, {Name: "c", TTL: expired}, {Name: "d"}}, request{API: "grpc", Start: "b", Limit: 10})
}
