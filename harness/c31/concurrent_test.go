package c31

// Concurrent stores: the cache is shared by all readers and writers of a mount
// (ChunkReadAt.readOneWholeChunk and wfs.saveDataAsChunk call SetChunk from many
// goroutines), which is what TieredChunkCache's RWMutex is for.

import (
	"bytes"
	"fmt"
	"os"
	"strings"
	"sync"
	"testing"

	"github.com/chrislusf/seaweedfs/weed/util/chunk_cache"
	"pgregory.net/rapid"

	"verifharness/vlib"
)

type cstore struct {
	f    fidT
	data []byte
}

func runConcurrent(t *rapid.T) {
	unit := rapid.SampledFrom([]int{256, 512, 1024}).Draw(t, "unitSize")
	writers := rapid.IntRange(2, 8).Draw(t, "writers")
	rounds := rapid.IntRange(3, 10).Draw(t, "rounds")
	tier := rapid.IntRange(0, 2).Draw(t, "tier")
	restart := rapid.Bool().Draw(t, "restartBeforeLookups")
	withReaders := rapid.Bool().Draw(t, "concurrentReaders")
	// sizes inside one disk tier; tiers 1 and 2 bypass the memory tier
	lo, hi := 1, unit
	switch tier {
	case 1:
		lo, hi = unit+1, 4*unit
	case 2:
		lo, hi = 4*unit+1, 7*unit
	}
	// large enough that nothing rotates: a lookup miss is still allowed, but every id should stay
	diskUnits := 64 * writers * rounds * 8
	dir := vlib.TempDir()
	defer os.RemoveAll(dir)
	c := chunk_cache.NewTieredChunkCache(2, dir, int64(diskUnits), int64(unit))
	defer func() { c.Shutdown() }()

	// every id has its own needle key, so the key-only indexing of the disk tiers cannot mix them up
	plan := make([][]cstore, rounds)
	key := uint64(0x500)
	var desc strings.Builder
	fmt.Fprintf(&desc, "concurrent unit=%d writers=%d rounds=%d tier=%d restart=%v readers=%v sizes=", unit, writers, rounds, tier, restart, withReaders)
	for r := 0; r < rounds; r++ {
		plan[r] = make([]cstore, writers)
		for w := 0; w < writers; w++ {
			key++
			f := fidT{vid: uint32(1 + w%3), key: key, cookie: uint32(0x1000 + w*7 + r)}
			sz := rapid.IntRange(lo, hi).Draw(t, fmt.Sprintf("size-%d-%d", r, w))
			plan[r][w] = cstore{f, dataOf(f, sz)}
			fmt.Fprintf(&desc, "%d,", sz)
		}
	}
	check := func(when string, s cstore) (hit bool, fail string) {
		got := c.GetChunk(s.f.String(), uint64(len(s.data)))
		if len(got) > 0 {
			if !bytes.Equal(got, s.data) {
				return true, fmt.Sprintf("%s: GetChunk(%s, %d) returned %d bytes that are not the bytes stored for this id (got %x want %x)", when, s.f, len(s.data), len(got), head(got), head(s.data))
			}
			hit = true
		}
		n := len(s.data)/2 + 1
		sl := c.GetChunkSlice(s.f.String(), 0, uint64(n))
		if len(sl) > 0 {
			if len(sl) != n || !bytes.Equal(sl, s.data[:n]) {
				return true, fmt.Sprintf("%s: GetChunkSlice(%s, 0, %d) returned %d bytes that are not data[0:%d] of this id (got %x want %x)", when, s.f, n, len(sl), n, head(sl), head(s.data))
			}
			hit = true
		}
		return hit, ""
	}
	var mu sync.Mutex
	var failures []string
	for r := 0; r < rounds; r++ {
		start := make(chan struct{})
		var wg sync.WaitGroup
		for w := 0; w < writers; w++ {
			wg.Add(1)
			go func(s cstore) {
				defer wg.Done()
				<-start
				c.SetChunk(s.f.String(), s.data)
			}(plan[r][w])
		}
		if withReaders && r > 0 {
			for w := 0; w < 2; w++ {
				wg.Add(1)
				go func(s cstore) {
					defer wg.Done()
					<-start
					if _, f := check("during round", s); f != "" {
						mu.Lock()
						failures = append(failures, f)
						mu.Unlock()
					}
				}(plan[r-1][w%writers])
			}
		}
		close(start)
		wg.Wait()
	}
	if len(failures) > 0 {
		t.Fatalf("%s\n%s", failures[0], desc.String())
	}
	if restart {
		c.Shutdown()
		c = chunk_cache.NewTieredChunkCache(2, dir, int64(diskUnits), int64(unit))
	}
	hits := 0
	for r := 0; r < rounds; r++ {
		for w := 0; w < writers; w++ {
			hit, f := check("after all stores", plan[r][w])
			if f != "" {
				t.Fatalf("%s\n%s", f, desc.String())
			}
			if hit {
				hits++
			}
		}
	}
	cls := []string{"concurrent", fmt.Sprintf("concurrent-tier%d", tier)}
	if restart {
		cls = append(cls, "concurrent-restart")
	}
	if hits == 0 {
		cls = append(cls, "concurrent-no-hit")
	}
	vlib.Case(desc.String(), hits > 0, cls...)
}

func TestPropConcurrentStores(t *testing.T) {
	vlib.Check(t, 64, 600, runConcurrent)
}

// TestRaceConcurrentStores is the same history under the race detector (thorough tier).
func TestRaceConcurrentStores(t *testing.T) {
	vlib.Check(t, 24, 24, runConcurrent)
}
