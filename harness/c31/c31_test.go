// C31 The mount's chunk cache is transparent.
package c31

import (
	"bytes"
	"fmt"
	"os"
	"path/filepath"
	"strings"
	"testing"

	"github.com/chrislusf/seaweedfs/weed/storage/needle"
	"github.com/chrislusf/seaweedfs/weed/util/chunk_cache"
	"pgregory.net/rapid"

	"verifharness/vlib"
)

// keyAlias: the three on-disk tiers index chunks by needle key only, so two file
// ids that share the key but differ in volume id or cookie read each other's bytes.
const keyAlias = "C31-disk-tiers-keyed-by-needle-key-only"

func TestMain(m *testing.M) {
	vlib.Rule("C31: rapid step sequences (12-50 steps) on chunk_cache.NewTieredChunkCache(maxEntries 2-8, scratch dir, diskSizeInUnit 8-64, unitSize 64-1024): SetChunk (two thirds of them from a window of a caller-owned scratch buffer that is overwritten right after SetChunk returned) / GetChunk(minSize) / GetChunkSlice(off,len) / Restart (Shutdown + New on the same dir) over a universe of file ids built from 3 volume ids x 4 keys x 2 cookies (ids share or differ in each component; some written in the key_delta sub-file form). Each id has a per-case fixed size drawn around {1, unit, 4*unit, 8*unit} +-1 and content that is a fixed non-zero function of (volume, key, cookie, position). Oracle: GetChunk returns nothing or exactly the stored bytes of that id with length >= minSize; GetChunkSlice returns nothing or exactly data[off:off+len]; a never-stored id returns nothing; no panic. Non-trivial = a lookup that hit after >=1 disk-volume rotation or a restart, or a lookup of an id that shares its key with another stored id. Distinct = distinct parameters + step list.")
	vlib.Rule("C31 concurrent stores: generated unit size, 2-8 writer goroutines and 3-10 rounds; in every round all writers are released together and each stores its own file id (distinct needle keys, generated sizes inside one generated disk tier; tiers 1 and 2 bypass the memory tier), optionally with two concurrent lookups of ids of the previous round; the cache is large enough that nothing rotates. Afterwards (optionally after a restart) GetChunk and GetChunkSlice of every id. Oracle, sound under any interleaving: a hit returns exactly the bytes stored for that id (a miss is allowed). Non-trivial = at least one hit. The same property runs under the race detector in the thorough tier.")
	vlib.Assume("C31: SetChunk takes a private copy, i.e. the caller may re-use its buffer once SetChunk has returned (the unchanged implementation copies; wfs.saveDataAsChunk hands it the upload input buffer); slices returned by lookups are not modified by the harness (readers in weed/filer only copy out of them). The bytes stored for one file id never change (chunks are immutable; both callers store the complete chunk); eviction policy itself (what is kept) is not checked, only that whatever is returned is right")
	vlib.Main(m)
}

// ----------------------------------------------------------------- file ids and data

type fidT struct {
	vid    uint32
	key    uint64
	cookie uint32
	delta  int // >0: written as "<vid>,<key-delta><cookie>_<delta>"
}

func (f fidT) String() string {
	if f.delta > 0 {
		return needle.NewFileId(needle.VolumeId(f.vid), f.key-uint64(f.delta), f.cookie).String() + fmt.Sprintf("_%d", f.delta)
	}
	return needle.NewFileId(needle.VolumeId(f.vid), f.key, f.cookie).String()
}

func dataByte(f fidT, pos int) byte {
	x := uint64(f.vid)*0x9E3779B97F4A7C15 ^ f.key*0xBF58476D1CE4E5B9 ^ uint64(f.cookie)*0x94D049BB133111EB
	x += uint64(pos+1) * 0xD6E8FEB86659FD93
	x ^= x >> 29
	x *= 0x94D049BB133111EB
	x ^= x >> 32
	return byte(1 + x%255)
}

func dataOf(f fidT, size int) []byte {
	d := make([]byte, size)
	for i := range d {
		d[i] = dataByte(f, i)
	}
	return d
}

// universe returns the file ids of a case. With the key-alias finding listed, every
// key belongs to exactly one (volume, cookie) pair, i.e. the aliasing class is left out.
func universe(excludeAlias bool) []fidT {
	var u []fidT
	vids := []uint32{1, 2, 77}
	keys := []uint64{0x11, 0x12, 0x2a01, 0x100000005}
	cookies := []uint32{0x01020304, 0xfeedbeef}
	for vi, v := range vids {
		for ki, k := range keys {
			for ci, c := range cookies {
				f := fidT{vid: v, key: k, cookie: c}
				if excludeAlias {
					// make the key unique for this (volume, cookie)
					f.key = k + uint64(0x1000*(vi*2+ci+1))
				}
				if ki == 1 && ci == 1 {
					f.delta = 1 + vi // sub-file form, same needle
				}
				u = append(u, f)
			}
		}
	}
	return u
}

// ----------------------------------------------------------------- rotation observer

func datSizes(dir string) map[string]int64 {
	out := map[string]int64{}
	names, _ := filepath.Glob(filepath.Join(dir, "*.dat"))
	for _, n := range names {
		if st, err := os.Stat(n); err == nil {
			out[filepath.Base(n)] = st.Size()
		}
	}
	return out
}

func rotated(before, after map[string]int64) bool {
	for n, s := range before {
		if a, ok := after[n]; ok && a < s {
			return true
		}
	}
	return false
}

// ----------------------------------------------------------------- the property

type params struct {
	maxEntries, disk, unit int
}

func runCase(t *rapid.T, excludeAlias bool) {
	p := params{
		maxEntries: rapid.IntRange(2, 8).Draw(t, "maxEntries"),
		disk:       rapid.SampledFrom([]int{8, 8, 12, 16, 32, 64}).Draw(t, "diskSizeInUnit"),
		unit:       rapid.SampledFrom([]int{64, 64, 72, 100, 128, 256, 1024}).Draw(t, "unitSize"),
	}
	u := universe(excludeAlias)
	// per-case sizes
	sizeGen := rapid.OneOf(
		rapid.IntRange(1, 9),
		rapid.SampledFrom([]int{p.unit - 1, p.unit, p.unit + 1}),
		rapid.SampledFrom([]int{4*p.unit - 1, 4 * p.unit, 4*p.unit + 1}),
		rapid.SampledFrom([]int{8*p.unit - 1, 8 * p.unit, 8*p.unit + 1}),
		rapid.IntRange(1, 9*p.unit),
	)
	sizes := make([]int, len(u))
	datas := make([][]byte, len(u))
	for i := range u {
		sizes[i] = sizeGen.Draw(t, fmt.Sprintf("size%d", i))
		datas[i] = dataOf(u[i], sizes[i])
	}
	sharesKey := func(i int, stored map[int]bool) bool {
		for j := range u {
			if j != i && stored[j] && u[j].key == u[i].key && (u[j].vid != u[i].vid || u[j].cookie != u[i].cookie) {
				return true
			}
		}
		return false
	}

	dir := vlib.TempDir()
	defer os.RemoveAll(dir)
	c := chunk_cache.NewTieredChunkCache(int64(p.maxEntries), dir, int64(p.disk), int64(p.unit))
	defer func() { c.Shutdown() }()

	var desc strings.Builder
	fmt.Fprintf(&desc, "mem=%d disk=%d unit=%d sizes=%v |", p.maxEntries, p.disk, p.unit, sizes)
	stored := map[int]bool{}
	rotations, restarts, reused := 0, 0, 0
	maxSize := 0
	for _, sz := range sizes {
		if sz > maxSize {
			maxSize = sz
		}
	}
	scratch := make([]byte, maxSize)
	hits, misses, hitsAfter, aliasLookups, sliceHits := 0, 0, 0, 0, 0
	// a working set keeps lookups close to recent stores so that hits are frequent
	nSteps := rapid.IntRange(12, 50).Draw(t, "nSteps")
	recent := []int{}
	pickFid := func(label string) int {
		if len(recent) > 0 && rapid.IntRange(0, 9).Draw(t, label+"-recent") < 6 {
			return recent[rapid.IntRange(0, len(recent)-1).Draw(t, label+"-ri")]
		}
		return rapid.IntRange(0, len(u)-1).Draw(t, label)
	}
	for s := 0; s < nSteps; s++ {
		switch op := rapid.SampledFrom([]string{"set", "set", "set", "set", "set", "set", "get", "get", "get", "get", "slice", "slice", "slice", "restart"}).Draw(t, "op"); op {
		case "set":
			i := pickFid("fid")
			before := datSizes(dir)
			if rapid.IntRange(0, 2).Draw(t, "callerReusesBuffer") > 0 {
				// the caller hands over a window of a buffer it re-uses as soon as SetChunk
				// has returned (wfs.saveDataAsChunk passes the upload buffer, which for an
				// in-memory page is the page's own backing array)
				buf := scratch[:sizes[i]]
				copy(buf, datas[i])
				c.SetChunk(u[i].String(), buf)
				for j := range buf {
					buf[j] = 0xEE
				}
				reused++
				desc.WriteString(" reuse:")
			} else {
				c.SetChunk(u[i].String(), datas[i])
			}
			if rotated(before, datSizes(dir)) {
				rotations++
			}
			stored[i] = true
			recent = append(recent, i)
			if len(recent) > 4 {
				recent = recent[1:]
			}
			fmt.Fprintf(&desc, " set(%s)", u[i])
		case "get":
			i := pickFid("fid")
			minSize := rapid.SampledFrom([]int{0, 1, sizes[i] - 1, sizes[i], sizes[i], sizes[i] + 1, p.unit, 4 * p.unit}).Draw(t, "minSize")
			if minSize < 0 {
				minSize = 0
			}
			got := c.GetChunk(u[i].String(), uint64(minSize))
			fmt.Fprintf(&desc, " get(%s,%d)=%d", u[i], minSize, len(got))
			alias := sharesKey(i, stored)
			if alias {
				aliasLookups++
			}
			if len(got) == 0 {
				misses++
				break
			}
			if !stored[i] {
				t.Fatalf("GetChunk(%s, %d) returned %d bytes for a file id that was never stored\nhistory: %s", u[i], minSize, len(got), desc.String())
			}
			if !bytes.Equal(got, datas[i]) {
				t.Fatalf("GetChunk(%s, %d) returned %d bytes that are not the %d bytes stored for this id (first bytes got %x want %x)\nhistory: %s",
					u[i], minSize, len(got), sizes[i], head(got), head(datas[i]), desc.String())
			}
			if len(got) < minSize {
				t.Fatalf("GetChunk(%s, %d) returned only %d bytes\nhistory: %s", u[i], minSize, len(got), desc.String())
			}
			hits++
			if rotations+restarts > 0 {
				hitsAfter++
			}
		case "slice":
			i := pickFid("fid")
			off := 0
			if rapid.IntRange(0, 3).Draw(t, "offNonZero") == 0 {
				off = rapid.IntRange(0, sizes[i]).Draw(t, "off")
			}
			ln := rapid.SampledFrom([]int{1, sizes[i] - off, sizes[i] - off, (sizes[i] - off) / 2, sizes[i] - off + 1, 7}).Draw(t, "len")
			if ln < 0 {
				ln = 0
			}
			got := c.GetChunkSlice(u[i].String(), uint64(off), uint64(ln))
			fmt.Fprintf(&desc, " slice(%s,%d,%d)=%d", u[i], off, ln, len(got))
			alias := sharesKey(i, stored)
			if alias {
				aliasLookups++
			}
			if len(got) == 0 {
				misses++
				break
			}
			if !stored[i] {
				t.Fatalf("GetChunkSlice(%s, %d, %d) returned %d bytes for a file id that was never stored\nhistory: %s", u[i], off, ln, len(got), desc.String())
			}
			if off+ln > sizes[i] || !bytes.Equal(got, datas[i][off:off+ln]) {
				t.Fatalf("GetChunkSlice(%s, %d, %d) returned %d bytes that are not data[%d:%d] of the %d bytes stored for this id (got %x)\nhistory: %s",
					u[i], off, ln, len(got), off, off+ln, sizes[i], head(got), desc.String())
			}
			hits++
			sliceHits++
			if rotations+restarts > 0 {
				hitsAfter++
			}
		case "restart":
			c.Shutdown()
			c = chunk_cache.NewTieredChunkCache(int64(p.maxEntries), dir, int64(p.disk), int64(p.unit))
			restarts++
			desc.WriteString(" restart")
		}
	}
	// final sweep: every id of the universe, full size
	for i := range u {
		got := c.GetChunk(u[i].String(), uint64(sizes[i]))
		if len(got) == 0 {
			continue
		}
		if !stored[i] || !bytes.Equal(got, datas[i]) {
			t.Fatalf("final GetChunk(%s, %d) returned %d bytes, stored=%v, not the bytes of this id (got %x want %x)\nhistory: %s",
				u[i], sizes[i], len(got), stored[i], head(got), head(datas[i]), desc.String())
		}
		hits++
		if rotations+restarts > 0 {
			hitsAfter++
		}
	}
	cls := []string{"seq"}
	if rotations > 0 {
		cls = append(cls, "rotated")
	}
	if restarts > 0 {
		cls = append(cls, "restarted")
	}
	if hitsAfter > 0 {
		cls = append(cls, "hit-after-rotation-or-restart")
	}
	if aliasLookups > 0 {
		cls = append(cls, "shared-key-lookup")
	}
	if sliceHits > 0 {
		cls = append(cls, "slice-hit")
	}
	if reused > 0 {
		cls = append(cls, "caller-reused-buffer")
	}
	if hits == 0 {
		cls = append(cls, "no-hit")
	}
	vlib.Case(desc.String(), hitsAfter > 0 || aliasLookups > 0, cls...)
}

func head(b []byte) []byte {
	if len(b) > 8 {
		return b[:8]
	}
	return b
}

func TestPropCacheTransparent(t *testing.T) {
	vlib.Check(t, 192, 2400, func(t *rapid.T) {
		ex := vlib.Known(keyAlias)
		if ex {
			vlib.Excluded(keyAlias)
		}
		runCase(t, ex)
	})
}

// ----------------------------------------------------------------- finding probe

// TestFindingKeyAlias: two ids with the same key in different volumes (and with
// different cookies); the chunk is larger than the unit size so that only the
// disk tiers hold it.
func TestFindingKeyAlias(t *testing.T) {
	dir := vlib.TempDir()
	defer os.RemoveAll(dir)
	c := chunk_cache.NewTieredChunkCache(4, dir, 16, 64)
	defer c.Shutdown()
	a := fidT{vid: 1, key: 0x11, cookie: 0x01020304}
	b := fidT{vid: 2, key: 0x11, cookie: 0xfeedbeef}
	da := dataOf(a, 100)
	c.SetChunk(a.String(), da)
	got := c.GetChunk(b.String(), 100)
	rep := len(got) > 0
	// same volume, other cookie
	b2 := fidT{vid: 1, key: 0x11, cookie: 0xfeedbeef}
	got2 := c.GetChunk(b2.String(), 100)
	vlib.Finding(t, keyAlias, rep || len(got2) > 0,
		fmt.Sprintf("SetChunk(%s, 100 bytes); GetChunk(%s,100) returned %d bytes (equal to the other id's data: %v); GetChunk(%s,100) returned %d bytes; nothing was ever stored for these ids",
			a, b, len(got), bytes.Equal(got, da), b2, len(got2)))
}
