// C35 Clients' volume location cache mirrors master updates.
//
// After any sequence of volume-location add and remove notifications, a
// client's lookup for a volume returns exactly the locations currently added
// (each once, same-data-center locations first) or not-found, and concurrent
// lookups during updates never observe duplicated, lost or torn entries.
package c35

import (
	"fmt"
	"os"
	"runtime"
	"sort"
	"strconv"
	"strings"
	"sync"
	"sync/atomic"
	"testing"

	"github.com/chrislusf/seaweedfs/weed/wdclient"
	"google.golang.org/grpc"
	"pgregory.net/rapid"

	"verifharness/vlib"
)

const keyTorn = "C35-delete-compacts-shared-slice"

func TestMain(m *testing.M) {
	vlib.Rule("C35: a MasterClient built without dialing (NewMasterClient; updates through the verif export of addLocation/deleteLocation, i.e. exactly what the KeepConnected receive loop calls) gets a rapid-generated sequence of add/delete notifications over 4 volume ids x 5 locations (2 data centers + one location without data center; client data center empty/dc1/dc2) including duplicate adds, deletes of absent locations and deletes of the last location. After EVERY step all four lookup entry points (GetLocations, GetVidLocations, LookupVolumeServerUrl, LookupFileId) are compared for every volume id with a reference ordered set, and every lookup result handed out earlier must still read as it did when it was returned (a result that changes under the caller is a torn read). Plus a bounded-exhaustive enumeration of all sequences up to length 5 (quick) / 7 (thorough) over 1 volume x 3 locations. Non-trivial = the sequence contains an effective delete (location was present) AND at some step a volume had >= 2 locations; distinct = distinct written-out sequence. TestRace (thorough, -race): 4 reader goroutines doing lookups and iterating the returned slices while one writer applies a generated sequence; each observed result must equal the reference state at some point between the start and the end of that lookup. TestPropConcurrentWriters (both tiers, plain build; also under -race): a generated scenario of 2-8 writer goroutines with their own add/delete lists on the same 1-2 volume ids over up to 12 servers, released together by a spin barrier after a sequential prefix, repeated 60 (quick) / 200 (thorough) rounds on fresh clients; the final set must be duplicate-free and, per server, equal to the outcome of the last update of SOME goroutine touching that server (exactly determined when each server belongs to one goroutine, which is 3 of 4 scenarios); untouched servers keep the prefix state. Non-trivial there = >= 2 goroutines on one volume with >= 2 distinct servers.")
	vlib.Assume("C35: a location is identified by its Url (what the unchanged addLocation/deleteLocation compare); PublicUrl and DataCenter are attributes that notifications for the same server may carry differently (3 of 4 generated sequences draw them per notification: table values / no data center as in the initial sync and the disconnect remove / arbitrary). A returned entry must carry a (PublicUrl, DataCenter) pair that some add for that server sent since it was last removed, unmixed; which of them is not prescribed. The same-data-center-first order of url lookups is judged against the data center GetLocations reports at that moment. 'None' may be reported as not-found or as an empty list. The reconnect path (tryAllMasters replacing the whole vidMap) needs a master connection and is not exercised.")
	vlib.Main(m)
}

// ---------------------------------------------------------------- domain

// allLocs is the server table; the sequential properties use the first five
// (locs), the concurrent-writers property all of them.
var allLocs = []wdclient.Location{
	{Url: "s0:8080", PublicUrl: "p0.example:8080", DataCenter: "dc1"},
	{Url: "s1:8080", PublicUrl: "p1.example:8080", DataCenter: "dc1"},
	{Url: "s2:8080", PublicUrl: "p2.example:8080", DataCenter: "dc2"},
	{Url: "s3:8080", PublicUrl: "p3.example:8080", DataCenter: "dc2"},
	{Url: "s4:8080", PublicUrl: "p4.example:8080", DataCenter: ""},
	{Url: "s5:8080", PublicUrl: "p5.example:8080", DataCenter: "dc1"},
	{Url: "s6:8080", PublicUrl: "p6.example:8080", DataCenter: "dc2"},
	{Url: "s7:8080", PublicUrl: "p7.example:8080", DataCenter: "dc1"},
	{Url: "s8:8080", PublicUrl: "p8.example:8080", DataCenter: "dc2"},
	{Url: "s9:8080", PublicUrl: "p9.example:8080", DataCenter: ""},
	{Url: "s10:8080", PublicUrl: "p10.example:8080", DataCenter: "dc1"},
	{Url: "s11:8080", PublicUrl: "p11.example:8080", DataCenter: "dc2"},
}

var locs = allLocs[:5]

func locIndex(url string) int {
	for i, l := range allLocs {
		if l.Url == url {
			return i
		}
	}
	return -1
}

var vids = []uint32{1, 2, 3, 4}

const unknownVid = 9

type op struct {
	add bool
	vid uint32
	loc int
	// attrs, when set, are the PublicUrl/DataCenter this notification carries
	// instead of the table's (the Url, which identifies the server, never varies)
	attrs *attrVariant
}

type attrVariant struct{ publicUrl, dataCenter string }

// msg is the Location the notification carries.
func (o op) msg() wdclient.Location {
	l := allLocs[o.loc]
	if o.attrs != nil {
		l.PublicUrl, l.DataCenter = o.attrs.publicUrl, o.attrs.dataCenter
	}
	return l
}

func (o op) String() string {
	c := "-"
	if o.add {
		c = "+"
	}
	if o.attrs != nil && (o.attrs.publicUrl != allLocs[o.loc].PublicUrl || o.attrs.dataCenter != allLocs[o.loc].DataCenter) {
		return fmt.Sprintf("%s%d@s%d{pub=%q,dc=%q}", c, o.vid, o.loc, o.attrs.publicUrl, o.attrs.dataCenter)
	}
	return fmt.Sprintf("%s%d@s%d", c, o.vid, o.loc)
}

func opsString(dc string, ops []op) string {
	var sb strings.Builder
	fmt.Fprintf(&sb, "clientDC=%q:", dc)
	for _, o := range ops {
		sb.WriteByte(' ')
		sb.WriteString(o.String())
	}
	return sb.String()
}

func newClient(dc string) *wdclient.MasterClient {
	// no master list: nothing is dialed, KeepConnectedToMaster is never started.
	return wdclient.NewMasterClient(grpc.WithInsecure(), "verif", "localhost", 0, dc, nil)
}

// reference: per volume the ordered set of location indices currently added.
type ref map[uint32][]int

func (r ref) apply(o op) (effective bool) {
	cur := r[o.vid]
	at := -1
	for i, x := range cur {
		if x == o.loc {
			at = i
		}
	}
	if o.add {
		if at >= 0 {
			return false
		}
		r[o.vid] = append(append([]int{}, cur...), o.loc)
		return true
	}
	if at < 0 {
		return false
	}
	n := append([]int{}, cur[:at]...)
	r[o.vid] = append(n, cur[at+1:]...)
	return true
}

func (r ref) clone() ref {
	c := ref{}
	for k, v := range r {
		c[k] = append([]int{}, v...)
	}
	return c
}

func sortedInts(a []int) []int {
	b := append([]int{}, a...)
	sort.Ints(b)
	return b
}

func sameSet(a, b []int) bool {
	if len(a) != len(b) {
		return false
	}
	x, y := sortedInts(a), sortedInts(b)
	for i := range x {
		if x[i] != y[i] {
			return false
		}
	}
	return true
}

// decodeLocations maps returned Location structs to table indices; an entry
// that is not exactly one of the table's structs is torn.
func decodeLocations(got []wdclient.Location) (idx []int, problem string) {
	return decodeLocationsAttr(got, nil)
}

// decodeLocationsAttr: allowed[i] lists the (PublicUrl, DataCenter) pairs that
// notifications have attached to server i since it was last removed; nil means
// the table's attributes. An entry must carry one of those pairs unmixed.
func decodeLocationsAttr(got []wdclient.Location, allowed map[int][]wdclient.Location) (idx []int, problem string) {
	seen := map[int]bool{}
	for _, l := range got {
		i := locIndex(l.Url)
		ok := i >= 0 && l == allLocs[i]
		if i >= 0 && allowed != nil {
			ok = false
			for _, a := range allowed[i] {
				if l == a {
					ok = true
				}
			}
		}
		if !ok {
			return nil, fmt.Sprintf("torn/unknown entry %+v (attributes never sent for this server: %v)", l, allowed[i])
		}
		if seen[i] {
			return nil, fmt.Sprintf("duplicate entry %s", l.Url)
		}
		seen[i] = true
		idx = append(idx, i)
	}
	return idx, ""
}

// decodeUrls maps url strings (optionally with the http://…/fid decoration) to
// table indices and checks duplicates and the same-data-center-first order.
func decodeUrls(got []string, clientDC, prefix, suffix string) (idx []int, problem string) {
	return decodeUrlsDC(got, clientDC, prefix, suffix, nil)
}

// decodeUrlsDC: dcOf[i] is the data center the cache currently reports for
// server i (from GetLocations at the same moment); nil means the table's.
func decodeUrlsDC(got []string, clientDC, prefix, suffix string, dcOf map[int]string) (idx []int, problem string) {
	seen := map[int]bool{}
	otherSeen := false
	for _, u := range got {
		if !strings.HasPrefix(u, prefix) || !strings.HasSuffix(u, suffix) {
			return nil, fmt.Sprintf("malformed url %q", u)
		}
		i := locIndex(u[len(prefix) : len(u)-len(suffix)])
		if i < 0 {
			return nil, fmt.Sprintf("unknown url %q", u)
		}
		if seen[i] {
			return nil, fmt.Sprintf("duplicate url %q", u)
		}
		seen[i] = true
		serverDC := allLocs[i].DataCenter
		if dcOf != nil {
			serverDC = dcOf[i]
		}
		same := clientDC != "" && serverDC == clientDC
		if same && otherSeen {
			return nil, fmt.Sprintf("same-data-center url %q listed after a url of another data center: %v", u, got)
		}
		if !same {
			otherSeen = true
		}
		idx = append(idx, i)
	}
	return idx, ""
}

const fidSuffix = ",01637037d6"

// lookupAll performs the four lookups for one volume and compares them with
// the expected set; it returns "" or a description of the discrepancy.
func lookupAll(mc *wdclient.MasterClient, clientDC string, vid uint32, want []int) string {
	return lookupAllAttr(mc, clientDC, vid, want, nil)
}

func lookupAllAttr(mc *wdclient.MasterClient, clientDC string, vid uint32, want []int, allowed map[int][]wdclient.Location) string {
	var dcOf map[int]string
	svid := strconv.Itoa(int(vid))
	// GetLocations
	got, found := mc.GetLocations(vid)
	if len(want) == 0 {
		if found && len(got) != 0 {
			return fmt.Sprintf("GetLocations(%d) = %v, want none", vid, got)
		}
	} else {
		idx, p := decodeLocationsAttr(got, allowed)
		if p != "" {
			return fmt.Sprintf("GetLocations(%d): %s (%v)", vid, p, got)
		}
		if allowed != nil {
			dcOf = map[int]string{}
			for _, l := range got {
				dcOf[locIndex(l.Url)] = l.DataCenter
			}
		}
		if !found || !sameSet(idx, want) {
			return fmt.Sprintf("GetLocations(%d) = %v found=%v, want locations %v", vid, got, found, want)
		}
	}
	// GetVidLocations
	got2, err := mc.GetVidLocations(svid)
	if len(want) == 0 {
		if err == nil && len(got2) != 0 {
			return fmt.Sprintf("GetVidLocations(%s) = %v, want none", svid, got2)
		}
	} else {
		idx, p := decodeLocationsAttr(got2, allowed)
		if p != "" {
			return fmt.Sprintf("GetVidLocations(%s): %s (%v)", svid, p, got2)
		}
		if err != nil || !sameSet(idx, want) {
			return fmt.Sprintf("GetVidLocations(%s) = %v err=%v, want locations %v", svid, got2, err, want)
		}
	}
	// LookupVolumeServerUrl
	urls, err := mc.LookupVolumeServerUrl(svid)
	if len(want) == 0 {
		if err == nil && len(urls) != 0 {
			return fmt.Sprintf("LookupVolumeServerUrl(%s) = %v, want none", svid, urls)
		}
	} else {
		idx, p := decodeUrlsDC(urls, clientDC, "", "", dcOf)
		if p != "" {
			return fmt.Sprintf("LookupVolumeServerUrl(%s): %s", svid, p)
		}
		if err != nil || !sameSet(idx, want) {
			return fmt.Sprintf("LookupVolumeServerUrl(%s) = %v err=%v, want locations %v", svid, urls, err, want)
		}
	}
	// LookupFileId
	fid := svid + fidSuffix
	full, err := mc.LookupFileId(fid)
	if len(want) == 0 {
		if err == nil && len(full) != 0 {
			return fmt.Sprintf("LookupFileId(%s) = %v, want none", fid, full)
		}
	} else {
		idx, p := decodeUrlsDC(full, clientDC, "http://", "/"+fid, dcOf)
		if p != "" {
			return fmt.Sprintf("LookupFileId(%s): %s", fid, p)
		}
		if err != nil || !sameSet(idx, want) {
			return fmt.Sprintf("LookupFileId(%s) = %v err=%v, want locations %v", fid, full, err, want)
		}
	}
	return ""
}

// held is a lookup result kept by a caller across later updates.
type held struct {
	step int
	vid  uint32
	live []wdclient.Location // the slice as returned
	snap []wdclient.Location // its content when it was returned
}

func (h held) changed() bool {
	if len(h.live) != len(h.snap) {
		return true
	}
	for i := range h.live {
		if h.live[i] != h.snap[i] {
			return true
		}
	}
	return false
}

type seqStats struct {
	attrMismatchDupAdd, attrMismatchDelete, disconnectShapeDelete int

	dupAdd, delAbsent, delPresent, delLast, delNonTail, addAfterDelete int
	maxLocs                                                            int
	mixedDC                                                            bool
}

// runSequence applies ops to a fresh client, checking all lookups after every
// step (everyStep) or only at the end, and returns a failure description or "".
func runSequence(clientDC string, ops []op, volumes []uint32, everyStep bool, holdResults bool) (string, seqStats) {
	mc := newClient(clientDC)
	r := ref{}
	var st seqStats
	var helds []held
	deleted := map[uint32]bool{}
	// (PublicUrl, DataCenter) pairs sent for a server since it was last removed
	sent := map[vidLoc][]wdclient.Location{}
	allowedFor := func(v uint32) map[int][]wdclient.Location {
		a := map[int][]wdclient.Location{}
		for _, x := range r[v] {
			a[x] = sent[vidLoc{v, x}]
		}
		return a
	}
	check := func(step int) string {
		for _, v := range volumes {
			if d := lookupAllAttr(mc, clientDC, v, r[v], allowedFor(v)); d != "" {
				return fmt.Sprintf("after step %d: %s", step, d)
			}
			if holdResults {
				if got, found := mc.GetLocations(v); found && len(got) > 0 {
					helds = append(helds, held{step, v, got, append([]wdclient.Location{}, got...)})
				}
			}
		}
		if d := lookupAll(mc, clientDC, unknownVid, nil); d != "" {
			return fmt.Sprintf("after step %d: never-mentioned volume: %s", step, d)
		}
		return ""
	}
	if d := check(0); d != "" {
		return d, st
	}
	for i, o := range ops {
		before := r[o.vid]
		pos := -1
		for j, x := range before {
			if x == o.loc {
				pos = j
			}
		}
		k := vidLoc{o.vid, o.loc}
		if o.add {
			mc.VerifAddLocation(o.vid, o.msg())
			if pos >= 0 {
				st.dupAdd++
				if o.msg() != sent[k][0] {
					st.attrMismatchDupAdd++
				}
			} else if deleted[o.vid] {
				st.addAfterDelete++
			}
			sent[k] = append(sent[k], o.msg())
		} else {
			mc.VerifDeleteLocation(o.vid, o.msg())
			if pos >= 0 {
				mismatch := true
				for _, a := range sent[k] {
					if a == o.msg() {
						mismatch = false
					}
				}
				if mismatch {
					st.attrMismatchDelete++
				}
				if o.msg().DataCenter == "" && sent[k][0].DataCenter != "" {
					st.disconnectShapeDelete++
				}
			}
			delete(sent, k)
			switch {
			case pos < 0:
				st.delAbsent++
			default:
				st.delPresent++
				deleted[o.vid] = true
				if len(before) == 1 {
					st.delLast++
				}
				if pos != len(before)-1 {
					st.delNonTail++
				}
			}
		}
		r.apply(o)
		if n := len(r[o.vid]); n > st.maxLocs {
			st.maxLocs = n
		}
		if clientDC != "" {
			same, other := false, false
			for _, x := range r[o.vid] {
				if locs[x].DataCenter == clientDC {
					same = true
				} else {
					other = true
				}
			}
			if same && other {
				st.mixedDC = true
			}
		}
		// results handed out earlier must not change under the caller
		for _, h := range helds {
			if h.changed() {
				return fmt.Sprintf("torn read: the result of GetLocations(%d) returned after step %d was %v; after step %d (%s) the same result reads %v",
					h.vid, h.step, h.snap, i+1, o, h.live), st
			}
		}
		if everyStep || i == len(ops)-1 {
			if d := check(i + 1); d != "" {
				return d, st
			}
		}
	}
	return "", st
}

func classes(st seqStats, base string) []string {
	c := []string{base}
	if st.dupAdd > 0 {
		c = append(c, "duplicate-add")
	}
	if st.delAbsent > 0 {
		c = append(c, "delete-absent")
	}
	if st.delLast > 0 {
		c = append(c, "delete-last-location")
	}
	if st.delNonTail > 0 {
		c = append(c, "delete-non-tail")
	}
	if st.addAfterDelete > 0 {
		c = append(c, "add-after-delete")
	}
	if st.mixedDC {
		c = append(c, "mixed-dc-lookup")
	}
	if st.attrMismatchDelete > 0 {
		c = append(c, "remove-with-attributes-never-added")
	}
	if st.disconnectShapeDelete > 0 {
		c = append(c, "remove-without-datacenter-of-server-added-with-one")
	}
	if st.attrMismatchDupAdd > 0 {
		c = append(c, "re-add-with-different-attributes")
	}
	c = append(c, fmt.Sprintf("max-locations-%d", st.maxLocs))
	return c
}

// ---------------------------------------------------------------- generated sequences

func genOps(t *rapid.T, nVids, nLocs, maxLen int) []op {
	n := rapid.IntRange(1, maxLen).Draw(t, "n")
	// a bias towards few volumes makes duplicate adds / effective deletes frequent
	focus := rapid.IntRange(1, nVids).Draw(t, "focusVids")
	ops := make([]op, n)
	for i := range ops {
		ops[i] = op{
			add: rapid.IntRange(0, 9).Draw(t, "kind") < 6,
			vid: vids[rapid.IntRange(0, focus-1).Draw(t, "vid")],
			loc: rapid.IntRange(0, nLocs-1).Draw(t, "loc"),
		}
	}
	return ops
}

// genAttrs draws the PublicUrl / DataCenter each notification carries. The
// master really sends differing pairs for one server: heartbeat adds carry the
// data center (master_grpc_server.go SendHeartbeat), the initial sync of a new
// client omits it (topology ToVolumeLocations), and the remove broadcast when a
// volume server disconnects carries Url and PublicUrl only.
func genAttrs(t *rapid.T, ops []op) {
	for i := range ops {
		o := &ops[i]
		tab := allLocs[o.loc]
		switch k := rapid.IntRange(0, 9).Draw(t, "shape"); {
		case k < 4: // as in the table (heartbeat shape: everything filled in)
		case k < 7: // no data center: initial sync (add) / disconnect (remove)
			o.attrs = &attrVariant{tab.PublicUrl, ""}
		default: // anything, independently of the Url
			o.attrs = &attrVariant{
				rapid.SampledFrom([]string{tab.PublicUrl, "", "other." + tab.PublicUrl}).Draw(t, "publicUrl"),
				rapid.SampledFrom([]string{"dc1", "dc2", ""}).Draw(t, "dataCenter"),
			}
		}
	}
}

func TestPropSequence(t *testing.T) {
	vlib.Check(t, 6000, 120000, func(t *rapid.T) {
		dc := rapid.SampledFrom([]string{"", "dc1", "dc2"}).Draw(t, "clientDC")
		ops := genOps(t, len(vids), len(locs), 40)
		if rapid.IntRange(0, 3).Draw(t, "attributeVariants") != 0 {
			genAttrs(t, ops)
		}
		hold := true
		if vlib.Known(keyTorn) {
			// listed finding: deleteLocation/addLocation rewrite the array that earlier
			// lookup results alias. Callers that keep a result across an update are excluded.
			vlib.Excluded(keyTorn)
			hold = false
		}
		d, st := runSequence(dc, ops, vids, true, hold)
		if d != "" {
			t.Fatalf("%s\nsequence: %s", d, opsString(dc, ops))
		}
		vlib.Case(opsString(dc, ops), st.delPresent > 0 && st.maxLocs >= 2, classes(st, "sequence")...)
	})
}

// every sequence up to length L over 1 volume x 3 locations (dc1, dc2, dc1).
func TestPropSequenceExhaustive(t *testing.T) {
	L := vlib.Pick(5, 7)
	sub := []int{0, 2, 1}
	alphabet := make([]op, 0, 6)
	for _, l := range sub {
		alphabet = append(alphabet, op{add: true, vid: 1, loc: l}, op{add: false, vid: 1, loc: l})
	}
	hold := true
	if vlib.Known(keyTorn) {
		vlib.Excluded(keyTorn)
		hold = false
	}
	idx := 0
	var rec func(prefix []op)
	rec = func(prefix []op) {
		if len(prefix) > 0 {
			idx++
			if vlib.ShardOwns(idx) {
				for _, dc := range []string{"dc1", ""} {
					d, st := runSequence(dc, prefix, []uint32{1}, false, hold)
					if d != "" {
						t.Fatalf("%s\nsequence: %s", d, opsString(dc, prefix))
					}
					vlib.Case(opsString(dc, prefix), st.delPresent > 0 && st.maxLocs >= 2, classes(st, "exhaustive")...)
				}
			}
		}
		if len(prefix) == L {
			return
		}
		for _, a := range alphabet {
			rec(append(prefix[:len(prefix):len(prefix)], a))
		}
	}
	rec(nil)
	vlib.Exhaustive(fmt.Sprintf("sequences<=%d over 1 volume x 3 locations", L), true)
}

// ---------------------------------------------------------------- concurrent writers

// A concurrent scenario: a sequential prefix, then W writer goroutines, each
// with its own op list, released together. The same scenario is run for many
// rounds (fresh client each round) because only the schedule varies.
type scenario struct {
	dc      string
	prefix  []op
	writers [][]op
	owned   bool // every server is updated by one goroutine only
}

func (sc scenario) String() string {
	var sb strings.Builder
	fmt.Fprintf(&sb, "prefix %s", opsString(sc.dc, sc.prefix))
	for i, w := range sc.writers {
		fmt.Fprintf(&sb, " || w%d:", i)
		for _, o := range w {
			sb.WriteByte(' ')
			sb.WriteString(o.String())
		}
	}
	return sb.String()
}

func genScenario(t *rapid.T) scenario {
	sc := scenario{dc: rapid.SampledFrom([]string{"", "dc1", "dc2"}).Draw(t, "clientDC")}
	nW := rapid.IntRange(2, 8).Draw(t, "writers")
	nVids := rapid.IntRange(1, 2).Draw(t, "vids")
	nServers := rapid.IntRange(nW, len(allLocs)).Draw(t, "servers")
	sc.owned = rapid.IntRange(0, 3).Draw(t, "sharedServers") != 0
	// prefix: some servers are already known (or the volume is brand new)
	for i, n := 0, rapid.IntRange(0, 6).Draw(t, "prefixLen"); i < n; i++ {
		sc.prefix = append(sc.prefix, op{
			add: rapid.IntRange(0, 4).Draw(t, "pkind") != 0,
			vid: vids[rapid.IntRange(0, nVids-1).Draw(t, "pvid")],
			loc: rapid.IntRange(0, nServers-1).Draw(t, "ploc"),
		})
	}
	sc.writers = make([][]op, nW)
	for w := range sc.writers {
		var mine []int // servers this goroutine may touch
		for s := 0; s < nServers; s++ {
			if !sc.owned || s%nW == w {
				mine = append(mine, s)
			}
		}
		n := rapid.IntRange(1, 5).Draw(t, "ops")
		for i := 0; i < n; i++ {
			sc.writers[w] = append(sc.writers[w], op{
				add: rapid.IntRange(0, 9).Draw(t, "kind") < 7,
				vid: vids[rapid.IntRange(0, nVids-1).Draw(t, "vid")],
				loc: mine[rapid.IntRange(0, len(mine)-1).Draw(t, "loc")],
			})
		}
	}
	return sc
}

type vidLoc struct {
	vid uint32
	loc int
}

// allowedFinal gives, per (volume, server), the presence values the final state
// may have under ANY interleaving of the writers: the set object is independent
// per server, and the update that is applied last to a server is the last one
// of some goroutine that touches it. Servers nobody touches keep the prefix state.
func (sc scenario) allowedFinal() (base ref, mayBePresent, mayBeAbsent map[vidLoc]bool) {
	base = ref{}
	for _, o := range sc.prefix {
		base.apply(o)
	}
	mayBePresent, mayBeAbsent = map[vidLoc]bool{}, map[vidLoc]bool{}
	touched := map[vidLoc]bool{}
	for _, w := range sc.writers {
		last := map[vidLoc]bool{}
		for _, o := range w {
			last[vidLoc{o.vid, o.loc}] = o.add
		}
		for k, add := range last {
			touched[k] = true
			if add {
				mayBePresent[k] = true
			} else {
				mayBeAbsent[k] = true
			}
		}
	}
	for _, v := range vids {
		in := map[int]bool{}
		for _, x := range base[v] {
			in[x] = true
		}
		for s := range allLocs {
			k := vidLoc{v, s}
			if touched[k] {
				continue
			}
			if in[s] {
				mayBePresent[k] = true
			} else {
				mayBeAbsent[k] = true
			}
		}
	}
	return
}

// runRound executes the scenario once and returns "" or the discrepancy.
func (sc scenario) runRound(mayBePresent, mayBeAbsent map[vidLoc]bool) string {
	mc := newClient(sc.dc)
	for _, o := range sc.prefix {
		if o.add {
			mc.VerifAddLocation(o.vid, allLocs[o.loc])
		} else {
			mc.VerifDeleteLocation(o.vid, allLocs[o.loc])
		}
	}
	var arrived int32
	n := int32(len(sc.writers))
	var wg sync.WaitGroup
	for _, w := range sc.writers {
		wg.Add(1)
		go func(ops []op) {
			defer wg.Done()
			// spin barrier: all writers start their first update together
			atomic.AddInt32(&arrived, 1)
			for atomic.LoadInt32(&arrived) < n {
				runtime.Gosched()
			}
			for _, o := range ops {
				if o.add {
					mc.VerifAddLocation(o.vid, allLocs[o.loc])
				} else {
					mc.VerifDeleteLocation(o.vid, allLocs[o.loc])
				}
			}
		}(w)
	}
	wg.Wait()
	for _, v := range vids {
		got, _ := mc.GetLocations(v)
		idx, p := decodeLocations(got)
		if p != "" {
			return fmt.Sprintf("final GetLocations(%d): %s (%v)", v, p, got)
		}
		in := map[int]bool{}
		for _, x := range idx {
			in[x] = true
		}
		for s := range allLocs {
			k := vidLoc{v, s}
			if in[s] && !mayBePresent[k] {
				return fmt.Sprintf("final GetLocations(%d) = %v contains %s although no order of the updates leaves it added (it was never added, or every goroutine that touches it deletes it last)", v, got, allLocs[s].Url)
			}
			if !in[s] && !mayBeAbsent[k] {
				return fmt.Sprintf("final GetLocations(%d) = %v lacks %s although every goroutine that touches it adds it last (or nobody touched it and it was there): an update was lost", v, got, allLocs[s].Url)
			}
		}
		// the other entry points agree with what GetLocations reports
		if d := lookupAll(mc, sc.dc, v, idx); d != "" {
			return "final state: " + d
		}
	}
	return ""
}

func concurrentWriters(t *rapid.T, rounds int) {
	sc := genScenario(t)
	_, mayBePresent, mayBeAbsent := sc.allowedFinal()
	for r := 0; r < rounds; r++ {
		if d := sc.runRound(mayBePresent, mayBeAbsent); d != "" {
			t.Fatalf("round %d of %d: %s\nscenario (each w is a goroutine, all released together after the prefix): %s", r, rounds, d, sc.String())
		}
	}
	// classification
	perVid := map[uint32]map[int]bool{}
	writersOn := map[uint32]int{}
	addDel := false
	for _, w := range sc.writers {
		seen := map[uint32]bool{}
		for _, o := range w {
			if perVid[o.vid] == nil {
				perVid[o.vid] = map[int]bool{}
			}
			perVid[o.vid][o.loc] = true
			if !seen[o.vid] {
				seen[o.vid] = true
				writersOn[o.vid]++
			}
			if !o.add {
				addDel = true
			}
		}
	}
	nt := false
	for v, n := range writersOn {
		if n >= 2 && len(perVid[v]) >= 2 {
			nt = true
		}
	}
	cls := []string{"concurrent-writers", fmt.Sprintf("writers-%d", len(sc.writers))}
	if sc.owned {
		cls = append(cls, "one-goroutine-per-server")
	} else {
		cls = append(cls, "servers-shared-between-goroutines")
	}
	if addDel {
		cls = append(cls, "concurrent-add-and-delete")
	} else {
		cls = append(cls, "concurrent-adds-only")
	}
	if len(sc.prefix) == 0 {
		cls = append(cls, "volume-unknown-at-start")
	}
	vlib.Case("concurrent: "+sc.String(), nt, cls...)
}

// TestPropConcurrentWriters: 2-8 goroutines update the same 1-2 volume ids at
// the same time. Whatever the interleaving, the final set must be explainable
// by some order of the updates (see allowedFinal), without duplicates.
func TestPropConcurrentWriters(t *testing.T) {
	rounds := vlib.Pick(60, 200)
	vlib.Check(t, 480, 6000, func(t *rapid.T) { concurrentWriters(t, rounds) })
}

// the same under the race detector (thorough)
func TestRaceConcurrentWriters(t *testing.T) {
	vlib.Check(t, 40, 200, func(t *rapid.T) { concurrentWriters(t, 40) })
}

// ---------------------------------------------------------------- finding probe

func TestFindingHeldResultTorn(t *testing.T) {
	mc := newClient("dc1")
	for _, i := range []int{0, 2, 1} {
		mc.VerifAddLocation(1, locs[i])
	}
	got, _ := mc.GetLocations(1)
	snap := append([]wdclient.Location{}, got...)
	mc.VerifDeleteLocation(1, locs[0])
	h := held{0, 1, got, snap}
	vlib.Finding(t, keyTorn, h.changed(), fmt.Sprintf("GetLocations(1) returned %v; after deleteLocation(1, s0:8080) the same returned slice reads %v (s0 lost, last entry duplicated): deleteLocation compacts the array shared with results already handed to readers, and LookupVolumeServerUrl iterates such a result after releasing the lock (data race under -race)", snap, got))
}

// ---------------------------------------------------------------- concurrent readers (thorough, -race)

// TestRaceLookupDuringUpdates: one writer applies a generated sequence to one
// client in phases; during a phase 4 readers look volumes up and iterate the
// returned slices. A lookup that started after the writer finished op a and
// ended before the writer started op b+1 must equal one of the reference
// states a..b. Between phases the readers are parked and hold no results.
func TestRaceLookupDuringUpdates(t *testing.T) {
	vlib.Check(t, 40, 240, func(t *rapid.T) {
		dc := rapid.SampledFrom([]string{"", "dc1", "dc2"}).Draw(t, "clientDC")
		nPhases := rapid.IntRange(1, 4).Draw(t, "phases")
		known := vlib.Known(keyTorn)
		type phase struct{ quiet, conc []op }
		phases := make([]phase, nPhases)
		var all []op
		for p := range phases {
			// quiet part: applied while no reader runs
			phases[p].quiet = genOps(t, 2, len(locs), 8)
			// concurrent part
			c := genOps(t, 2, len(locs), 30)
			if known {
				// listed finding: only updates that do not rewrite live array slots may run
				// concurrently with readers: adds, duplicate adds, deletes of absent locations.
				vlib.Excluded(keyTorn)
				r := ref{}
				for _, o := range all {
					r.apply(o)
				}
				for _, o := range phases[p].quiet {
					r.apply(o)
				}
				kept := c[:0]
				for _, o := range c {
					present := false
					for _, x := range r[o.vid] {
						if x == o.loc {
							present = true
						}
					}
					if !o.add && present {
						continue
					}
					r.apply(o)
					kept = append(kept, o)
				}
				c = kept
			}
			phases[p].conc = c
			all = append(append(all, phases[p].quiet...), c...)
		}
		// reference states S_0..S_n
		states := make([]ref, len(all)+1)
		states[0] = ref{}
		for i, o := range all {
			states[i+1] = states[i].clone()
			states[i+1].apply(o)
		}
		hist := func() string {
			var sb strings.Builder
			for i, ph := range phases {
				fmt.Fprintf(&sb, "phase %d quiet: %s\nphase %d concurrent with 4 readers: %s\n", i, opsString(dc, ph.quiet), i, opsString(dc, ph.conc))
			}
			return sb.String()
		}
		if os.Getenv("VERIF_RACE") == "1" {
			// a report of the race detector does not go through the oracle below: print
			// the history of every case up front so that it is in the log next to the report.
			fmt.Printf("C35 race case history:\n%s", hist())
		}
		mc := newClient(dc)
		var started, done int64 // ops started / finished by the writer
		var failMu sync.Mutex
		var failure string
		fail := func(s string) {
			failMu.Lock()
			if failure == "" {
				failure = s
			}
			failMu.Unlock()
		}
		matches := func(a, b int64, vid uint32, idx []int) bool {
			for k := a; k <= b; k++ {
				if sameSet(states[k][vid], idx) {
					return true
				}
			}
			return false
		}
		reader := func(id int, stop *int32, lookups *int64) {
			for n := 0; atomic.LoadInt32(stop) == 0 || n == 0; n++ {
				vid := vids[(n+id)%2]
				a := atomic.LoadInt64(&done)
				var idx []int
				var p, what string
				switch (n / 2) % 3 {
				case 0:
					what = "GetLocations"
					got, _ := mc.GetLocations(vid)
					idx, p = decodeLocations(got) // iterates the returned slice
				case 1:
					what = "LookupVolumeServerUrl"
					urls, _ := mc.LookupVolumeServerUrl(strconv.Itoa(int(vid)))
					idx, p = decodeUrls(urls, dc, "", "")
				default:
					what = "LookupFileId"
					fid := strconv.Itoa(int(vid)) + fidSuffix
					urls, _ := mc.LookupFileId(fid)
					idx, p = decodeUrls(urls, dc, "http://", "/"+fid)
				}
				b := atomic.LoadInt64(&started)
				if p != "" {
					fail(fmt.Sprintf("reader %d %s(%d) between op %d and op %d: %s", id, what, vid, a, b, p))
					return
				}
				if !matches(a, b, vid, idx) {
					fail(fmt.Sprintf("reader %d %s(%d) = locations %v, which is none of the states after ops %d..%d (state after op %d: %v, after op %d: %v)",
						id, what, vid, idx, a, b, a, states[a][vid], b, states[b][vid]))
					return
				}
				atomic.AddInt64(lookups, 1)
			}
		}
		apply := func(o op) {
			atomic.AddInt64(&started, 1)
			if o.add {
				mc.VerifAddLocation(o.vid, locs[o.loc])
			} else {
				mc.VerifDeleteLocation(o.vid, locs[o.loc])
			}
			atomic.AddInt64(&done, 1)
		}
		var lookups int64
		for _, ph := range phases {
			for _, o := range ph.quiet {
				apply(o)
			}
			var stop int32
			var wg sync.WaitGroup
			for id := 0; id < 4; id++ {
				wg.Add(1)
				go func(id int) { defer wg.Done(); reader(id, &stop, &lookups) }(id)
			}
			for _, o := range ph.conc {
				// let the readers get at least two lookups in between two updates
				for base := atomic.LoadInt64(&lookups); atomic.LoadInt64(&lookups) < base+2; {
					failMu.Lock()
					f := failure
					failMu.Unlock()
					if f != "" {
						break
					}
					runtime.Gosched()
				}
				apply(o)
			}
			atomic.StoreInt32(&stop, 1)
			wg.Wait()
		}
		if failure != "" {
			t.Fatalf("%s\nhistory:\n%s", failure, hist())
		}
		// final state, sequentially
		for _, v := range vids {
			if d := lookupAll(mc, dc, v, states[len(all)][v]); d != "" {
				t.Fatalf("final state: %s\nhistory:\n%s", d, hist())
			}
		}
		if testing.Verbose() {
			t.Logf("history (%d lookups):\n%s", lookups, hist())
		}
		vlib.Case("race: "+hist(), len(all) > 4, "race-history")
	})
}
