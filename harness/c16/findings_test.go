package c16

import (
	"fmt"
	"strings"
	"testing"

	"pgregory.net/rapid"

	"verifharness/vlib"
)

// Listed findings (see /verif/known_findings.d/C16.txt). While a key is listed
// as "known" the generator leaves out exactly the input class that triggers it.
const (
	keyDryRunDedup  = "C16-dryrun-dedup-not-applied"   // duplicates are only removed from the bookkeeping with -force
	keyShardDropped = "C16-across-racks-shard-dropped" // pickNEcShardsToMoveFrom deletes shards before a destination exists
	keyRackNoFree   = "C16-rack-balance-no-free-slot"  // doBalanceEcRack never looks at the target's free slots
)

const ampleVolumes = 100 // +1000 shard slots: more than every shard of the layout

func inScope(n *node, dc string) bool { return dc == "" || n.dc == dc }

// roomInRack gives the first server of the rack a hard drive disk with more
// free shard slots than there are shards.
func roomInRack(l *layout, rack string) {
	for i := range l.nodes {
		if l.nodes[i].rack == rack {
			l.nodes[i].hasHdd = true
			l.nodes[i].maxVol = l.nodes[i].activeVol + ampleVolumes
			return
		}
	}
}

func applyKnown(t *rapid.T, l *layout, dc string) {
	racks := map[string]int{}
	var order []string
	for i := range l.nodes {
		if inScope(&l.nodes[i], dc) {
			if racks[l.nodes[i].rack] == 0 {
				order = append(order, l.nodes[i].rack)
			}
			racks[l.nodes[i].rack]++
		}
	}
	if vlib.Known(keyShardDropped) {
		// A shard picked for a move across racks is lost from the bookkeeping when no
		// rack / server can take it. Left out by construction in one of two ways:
		// either every rack can always take shards, or no rack is over the even-spread
		// target so that nothing is picked.
		vlib.Excluded(keyShardDropped)
		if rapid.Bool().Draw(t, "knownDroppedMode") {
			for i := range l.nodes {
				l.nodes[i].hasHdd = true
			}
			for _, r := range order {
				roomInRack(l, r)
			}
		} else if len(order) > 0 {
			avg := (totalShards + len(order) - 1) / len(order)
			for _, vid := range l.vids {
				for _, r := range order {
					count := 0
					for i := range l.nodes {
						if l.nodes[i].rack == r && inScope(&l.nodes[i], dc) {
							b := l.nodes[i].shards[vid]
							for s := totalShards - 1; s >= 0; s-- {
								if b&(1<<uint(s)) == 0 {
									continue
								}
								if count >= avg {
									b &^= 1 << uint(s)
								} else {
									count++
								}
							}
							if b == 0 {
								delete(l.nodes[i].shards, vid)
							} else {
								l.nodes[i].shards[vid] = b
							}
						}
					}
				}
			}
		}
	}
	if vlib.Known(keyRackNoFree) {
		// rack balancing moves onto the server with the most free slots without
		// checking that it has any: every rack of two or more servers gets one
		// server that cannot fill up.
		vlib.Excluded(keyRackNoFree)
		for _, r := range order {
			if racks[r] >= 2 {
				roomInRack(l, r)
			}
		}
	}
}

// ------------------------------------------------------------------ probes

func mk(dc, rack, id string, maxVol int, shards map[uint32]uint32) node {
	if shards == nil {
		shards = map[uint32]uint32{}
	}
	return node{dc: dc, rack: rack, id: id, hasHdd: true, maxVol: maxVol, shards: shards}
}

const allShards = 1<<totalShards - 1

// tryLayout runs the planner a few times (its choices depend on Go map order)
// and returns the first breach.
func tryLayout(l *layout, collection string, colls []string) string {
	for i := 0; i < 8; i++ {
		if res := runBalance(l, "", collection, colls); res.breach != "" {
			return res.breach
		}
	}
	return ""
}

func TestFindingShardDropped(t *testing.T) {
	l := &layout{
		nodes: []node{mk("dc1", "rk1", "n1:8080", 10, map[uint32]uint32{1: allShards}), mk("dc1", "rk2", "n2:8080", 0, nil)},
		colls: map[uint32]string{1: ""}, vids: []uint32{1},
	}
	msg := tryLayout(l, "EACH_COLLECTION", []string{""})
	vlib.Finding(t, keyShardDropped, strings.HasPrefix(msg, "SHARD-LOST") || strings.HasPrefix(msg, "BOOKKEEPING-DIVERGES"), fmt.Sprintf("ec.balance on {%s}: %q", l, msg))
}

func TestFindingDryRunDedup(t *testing.T) {
	l := &layout{
		nodes: []node{mk("dc1", "rk1", "n1:8080", 5, map[uint32]uint32{1: 0b1111}), mk("dc1", "rk1", "n2:8080", 1, map[uint32]uint32{1: 0b0001})},
		colls: map[uint32]string{1: ""}, vids: []uint32{1},
	}
	msg := tryLayout(l, "EACH_COLLECTION", []string{""})
	rep := false
	for _, p := range []string{"MOVE-FROM-NON-HOLDER", "TARGET-ALREADY-HOLDS-SHARD", "BOOKKEEPING-DIVERGES", "SHARD-DUPLICATED", "FREE-SLOT-DIVERGES"} {
		if strings.HasPrefix(msg, p) {
			rep = true
		}
	}
	vlib.Finding(t, keyDryRunDedup, rep, fmt.Sprintf("ec.balance on {%s}: %q", l, msg))
}

func TestFindingRackNoFree(t *testing.T) {
	l := &layout{
		nodes: []node{
			mk("dc1", "rk1", "n1:8080", 0, map[uint32]uint32{1: 0b1}),
			mk("dc1", "rk1", "n2:8080", 0, map[uint32]uint32{2: allShards}),
			mk("dc1", "rk2", "n3:8080", 3, nil),
		},
		colls: map[uint32]string{1: "", 2: ""}, vids: []uint32{1, 2},
	}
	msg := tryLayout(l, "EACH_COLLECTION", []string{""})
	vlib.Finding(t, keyRackNoFree, strings.HasPrefix(msg, "NO-FREE-SLOT"), fmt.Sprintf("ec.balance on {%s}: %q", l, msg))
}
