// C16 EC shard balancing never loses, duplicates or overfills.
package c16

import (
	"fmt"
	"math/bits"
	"regexp"
	"sort"
	"strconv"
	"strings"
	"testing"

	"github.com/chrislusf/seaweedfs/weed/pb/master_pb"
	"github.com/chrislusf/seaweedfs/weed/shell"
	"pgregory.net/rapid"

	"verifharness/vlib"
)

func TestMain(m *testing.M) {
	vlib.Rule("C16: rapid-generated EC layouts (1-2 data centers, 1-6, 7, 8, 10 or 14 racks x 1-5 servers (7 and 14 divide the 14 shards evenly), free shard slots from below 0 to ~40 derived from max/active volume counts, 1-6 EC volumes in collections \"\",c1,c2 whose 14 shards are partitioned over few or many servers, spread evenly over the racks with one rack taking over the shards of one to three others whose servers are then full, partly missing, duplicated, or given as arbitrary per-server bitmaps) are handed as master_pb.TopologyInfo to the real ec.balance planning code (dry run, EACH_COLLECTION or a named collection, optional -dataCenter) through weed/shell/verif_export.go; every printed move is replayed in order on an independent model and the planner's final EcNode bookkeeping is compared with the model. Non-trivial = >=2 racks and >=1 planned move. Distinct = distinct (layout, command, plan) text.")
	vlib.Assume("C16: ec.balance is driven through a shim that repeats the body of commandEcBalance.Do after the topology fetch (no master, no lock); the collection list the master would return is the set of EC collections of the layout, in a drawn order; rack identity is the rack id (as in ec.balance itself), rack ids are unique across data centers; the planner's many Go-map iterations make its choices vary between runs of the same input, each run is judged on its own output.")
	vlib.Main(m)
}

const totalShards = 14

// ------------------------------------------------------------------ layout

type node struct {
	dc, rack, id string
	hasHdd       bool
	maxVol       int
	activeVol    int
	shards       map[uint32]uint32 // vid -> shard bits
}

func (n *node) shardCount() (c int) {
	for _, b := range n.shards {
		c += bits.OnesCount32(b)
	}
	return
}

func (n *node) free() int {
	if !n.hasHdd {
		return 0
	}
	return (n.maxVol-n.activeVol)*10 - n.shardCount()
}

type layout struct {
	nodes []node
	colls map[uint32]string
	vids  []uint32
}

func bitsText(b uint32) string {
	var l []string
	for s := 0; s < totalShards; s++ {
		if b&(1<<uint(s)) != 0 {
			l = append(l, strconv.Itoa(s))
		}
	}
	return strings.Join(l, ",")
}

func (l *layout) String() string {
	var b strings.Builder
	for i, n := range l.nodes {
		if i > 0 {
			b.WriteString(" ")
		}
		fmt.Fprintf(&b, "%s/%s/%s[", n.dc, n.rack, n.id)
		if !n.hasHdd {
			b.WriteString("no-hdd")
		} else {
			fmt.Fprintf(&b, "max%d active%d free%d", n.maxVol, n.activeVol, n.free())
		}
		var vs []int
		for v := range n.shards {
			vs = append(vs, int(v))
		}
		sort.Ints(vs)
		for _, v := range vs {
			fmt.Fprintf(&b, " v%d:{%s}", v, bitsText(n.shards[uint32(v)]))
		}
		b.WriteString("]")
	}
	b.WriteString(" | collections:")
	for _, v := range l.vids {
		fmt.Fprintf(&b, " v%d=%q", v, l.colls[v])
	}
	return b.String()
}

func (l *layout) topology() *master_pb.TopologyInfo {
	topo := &master_pb.TopologyInfo{Id: "topo"}
	dcs := map[string]*master_pb.DataCenterInfo{}
	racks := map[string]*master_pb.RackInfo{}
	for _, n := range l.nodes {
		dc := dcs[n.dc]
		if dc == nil {
			dc = &master_pb.DataCenterInfo{Id: n.dc}
			dcs[n.dc] = dc
			topo.DataCenterInfos = append(topo.DataCenterInfos, dc)
		}
		rk := racks[n.dc+" "+n.rack]
		if rk == nil {
			rk = &master_pb.RackInfo{Id: n.rack}
			racks[n.dc+" "+n.rack] = rk
			dc.RackInfos = append(dc.RackInfos, rk)
		}
		dn := &master_pb.DataNodeInfo{Id: n.id, DiskInfos: map[string]*master_pb.DiskInfo{}}
		if n.hasHdd {
			di := &master_pb.DiskInfo{Type: "", MaxVolumeCount: uint64(n.maxVol), ActiveVolumeCount: uint64(n.activeVol), VolumeCount: uint64(n.activeVol)}
			var vs []int
			for v := range n.shards {
				vs = append(vs, int(v))
			}
			sort.Ints(vs)
			for _, v := range vs {
				di.EcShardInfos = append(di.EcShardInfos, &master_pb.VolumeEcShardInformationMessage{Id: uint32(v), Collection: l.colls[uint32(v)], EcIndexBits: n.shards[uint32(v)]})
			}
			dn.DiskInfos[""] = di
		} else {
			dn.DiskInfos["ssd"] = &master_pb.DiskInfo{Type: "ssd", MaxVolumeCount: 5}
		}
		rk.DataNodeInfos = append(rk.DataNodeInfos, dn)
	}
	return topo
}

// ------------------------------------------------------------------ generator

func genLayout(t *rapid.T) *layout {
	l := &layout{colls: map[uint32]string{}}
	// 7 and 14 racks are the counts (besides 1 and 2) that divide the 14 shards evenly: there the
	// even-spread target has no slack and an off-by-one in it shows
	nRack := rapid.SampledFrom([]int{1, 2, 3, 4, 5, 6, 1, 2, 3, 4, 5, 6, 7, 7, 7, 14, 8, 10}).Draw(t, "nRack")
	twoDC := rapid.IntRange(0, 4).Draw(t, "twoDC") == 0
	k := 0
	for r := 1; r <= nRack; r++ {
		dc := "dc1"
		if twoDC && r > (nRack+1)/2 {
			dc = "dc2"
		}
		nNode := rapid.IntRange(1, 5).Draw(t, "nNode")
		if nRack > 6 && nNode > 2 {
			nNode = 2
		}
		for i := 0; i < nNode; i++ {
			k++
			l.nodes = append(l.nodes, node{dc: dc, rack: fmt.Sprintf("rk%d", r), id: fmt.Sprintf("n%d:8080", k), hasHdd: true, shards: map[uint32]uint32{}})
		}
	}
	if len(l.nodes) > 2 && rapid.IntRange(0, 9).Draw(t, "ssdOnlyNode") == 0 {
		l.nodes[rapid.IntRange(0, len(l.nodes)-1).Draw(t, "ssdOnlyWhich")].hasHdd = false
	}
	var hdd []int
	for i, n := range l.nodes {
		if n.hasHdd {
			hdd = append(hdd, i)
		}
	}
	allowDup := !vlib.Known(keyDryRunDedup)
	full := map[int]bool{} // servers that get no free shard slot
	nVol := rapid.IntRange(1, 6).Draw(t, "nVol")
	for v := 1; v <= nVol; v++ {
		vid := uint32(v)
		l.vids = append(l.vids, vid)
		l.colls[vid] = rapid.SampledFrom([]string{"", "c1", "c1", "c2"}).Draw(t, "collection")
		mode := rapid.IntRange(0, 9).Draw(t, "shardMode")
		if mode == 9 && !allowDup {
			vlib.Excluded(keyDryRunDedup)
			mode = 0
		}
		if mode == 9 {
			// arbitrary bitmaps per server
			for _, i := range hdd {
				if rapid.IntRange(0, 2).Draw(t, "hasBitmap") == 0 {
					if b := rapid.Uint32Range(0, 1<<totalShards-1).Draw(t, "bitmap"); b != 0 {
						l.nodes[i].shards[vid] = b
					}
				}
			}
			continue
		}
		if mode == 8 || mode == 7 && nRack >= 7 {
			// even spread plus a bump: shard s goes to rack s mod #racks (the even-spread target exactly
			// when #racks divides 14), then one to three racks hand all their shards to one heavy rack and
			// (mostly) have no free slot left, so that the only racks with room are already at the target
			rackNodes := map[int][]int{}
			for _, i := range hdd {
				var r int
				fmt.Sscanf(l.nodes[i].rack, "rk%d", &r)
				rackNodes[r-1] = append(rackNodes[r-1], i)
			}
			var usable []int
			for r := 0; r < nRack; r++ {
				if len(rackNodes[r]) > 0 {
					usable = append(usable, r)
				}
			}
			if len(usable) >= 2 {
				heavy := usable[rapid.IntRange(0, len(usable)-1).Draw(t, "heavyRack")]
				donors := map[int]bool{}
				for d := rapid.IntRange(1, 3).Draw(t, "donorRacks"); d > 0; d-- {
					if r := usable[rapid.IntRange(0, len(usable)-1).Draw(t, "donorRack")]; r != heavy {
						donors[r] = true
					}
				}
				for sh := 0; sh < totalShards; sh++ {
					r := usable[sh%len(usable)]
					if donors[r] {
						r = heavy
					}
					ns := rackNodes[r]
					l.nodes[ns[rapid.IntRange(0, len(ns)-1).Draw(t, "holderInRack")]].shards[vid] |= 1 << uint(sh)
				}
				if rapid.IntRange(0, 4).Draw(t, "donorsFull") > 0 {
					for r := range donors {
						for _, i := range rackNodes[r] {
							full[i] = true
						}
					}
				}
				continue
			}
		}
		// the 14 shards partitioned over a subset of the servers
		spread := rapid.IntRange(1, len(hdd)).Draw(t, "spread")
		start := rapid.IntRange(0, len(hdd)-1).Draw(t, "spreadStart")
		missing := 0
		if rapid.IntRange(0, 3).Draw(t, "someMissing") == 0 {
			missing = rapid.IntRange(1, 6).Draw(t, "missing")
		}
		for s := 0; s < totalShards; s++ {
			if missing > 0 && rapid.IntRange(0, totalShards-1).Draw(t, "drop") < missing {
				continue
			}
			i := hdd[(start+rapid.IntRange(0, spread-1).Draw(t, "holder"))%len(hdd)]
			l.nodes[i].shards[vid] |= 1 << uint(s)
		}
		if rapid.IntRange(0, 3).Draw(t, "withDuplicates") == 0 {
			if !allowDup {
				vlib.Excluded(keyDryRunDedup)
			} else {
				nd := rapid.IntRange(1, 5).Draw(t, "duplicates")
				for d := 0; d < nd; d++ {
					i := hdd[rapid.IntRange(0, len(hdd)-1).Draw(t, "dupHolder")]
					l.nodes[i].shards[vid] |= 1 << uint(rapid.IntRange(0, totalShards-1).Draw(t, "dupShard"))
				}
			}
		}
	}
	for i := range l.nodes {
		n := &l.nodes[i]
		if !n.hasHdd {
			continue
		}
		want := rapid.OneOf(rapid.IntRange(-5, 40), rapid.IntRange(-3, 3)).Draw(t, "freeSlots")
		if full[i] {
			want = -rapid.IntRange(0, 3).Draw(t, "fullBy")
		}
		slots := want + n.shardCount()
		if slots < 0 {
			slots = 0
		}
		kk := slots / 10
		if slots%10 != 0 && !full[i] && rapid.Bool().Draw(t, "roundUp") {
			kk++
		}
		n.activeVol = rapid.IntRange(0, 3).Draw(t, "activeVolumes")
		n.maxVol = n.activeVol + kk
	}
	return l
}

// ------------------------------------------------------------------ model

type model struct {
	l     *layout
	idx   map[string]int
	in    []bool // server is in the planner's scope (-dataCenter)
	bits  []map[uint32]uint32
	free  []int
	racks map[string]bool
}

func newModel(l *layout, dc string) *model {
	m := &model{l: l, idx: map[string]int{}, racks: map[string]bool{}}
	for i, n := range l.nodes {
		m.idx[n.id] = i
		m.in = append(m.in, dc == "" || n.dc == dc)
		b := map[uint32]uint32{}
		for v, x := range n.shards {
			b[v] = x
		}
		m.bits = append(m.bits, b)
		m.free = append(m.free, n.free())
		if m.in[i] {
			m.racks[n.rack] = true
		}
	}
	return m
}

func (m *model) holders(vid uint32, shard int) (out []string) {
	for i := range m.bits {
		if m.in[i] && m.bits[i][vid]&(1<<uint(shard)) != 0 {
			out = append(out, m.l.nodes[i].id)
		}
	}
	return
}

func (m *model) rackCount(rack string, vid uint32) (c int) {
	for i, n := range m.l.nodes {
		if m.in[i] && n.rack == rack {
			c += bits.OnesCount32(m.bits[i][vid])
		}
	}
	return
}

var (
	reMove = regexp.MustCompile(`^(\S+) moves ec shards? (\d+)\.(\d+) to (\S+)$`)
	reKeep = regexp.MustCompile(`^ec shard (\d+)\.(\d+) has (\d+) copies, keeping (\S+)$`)
)

type planStats struct {
	moves, crossRack, dedups int
	text                     []string
}

// replayPlan checks every printed step against the property and applies it to
// the model. dedupApplies: the "keeping" lines are expected to take effect in
// the planner's bookkeeping (the statement's "exactly once"); it is false only
// while the listed dry-run finding is excluded (then no duplicates exist).
func (m *model) replayPlan(out string) (st planStats, breach string) {
	avg := 0
	if len(m.racks) > 0 {
		avg = (totalShards + len(m.racks) - 1) / len(m.racks)
	}
	for _, line := range strings.Split(out, "\n") {
		if k := reKeep.FindStringSubmatch(line); k != nil {
			vid64, _ := strconv.ParseUint(k[1], 10, 32)
			shard, _ := strconv.Atoi(k[2])
			vid := uint32(vid64)
			ki, ok := m.idx[k[4]]
			if !ok || !m.in[ki] || m.bits[ki][vid]&(1<<uint(shard)) == 0 {
				return st, fmt.Sprintf("DEDUP-KEEPS-NON-HOLDER: %q but %s does not hold shard %d.%d (holders %v)", line, k[4], vid, shard, m.holders(vid, shard))
			}
			for i := range m.bits {
				if i != ki && m.in[i] && m.bits[i][vid]&(1<<uint(shard)) != 0 {
					m.bits[i][vid] &^= 1 << uint(shard)
					m.free[i]++
				}
			}
			st.dedups++
			st.text = append(st.text, line)
			continue
		}
		mv := reMove.FindStringSubmatch(line)
		if mv == nil {
			continue
		}
		st.text = append(st.text, line)
		vid64, _ := strconv.ParseUint(mv[2], 10, 32)
		shard, _ := strconv.Atoi(mv[3])
		vid := uint32(vid64)
		si, ok1 := m.idx[mv[1]]
		di, ok2 := m.idx[mv[4]]
		if !ok1 || !ok2 || !m.in[si] || !m.in[di] {
			return st, fmt.Sprintf("step %q names a server outside the planner's scope", line)
		}
		if m.bits[si][vid]&(1<<uint(shard)) == 0 {
			return st, fmt.Sprintf("MOVE-FROM-NON-HOLDER: step %q but %s does not hold shard %d.%d at that moment (holders %v)", line, mv[1], vid, shard, m.holders(vid, shard))
		}
		if m.bits[di][vid]&(1<<uint(shard)) != 0 {
			return st, fmt.Sprintf("TARGET-ALREADY-HOLDS-SHARD: step %q but %s already holds shard %d.%d", line, mv[4], vid, shard)
		}
		if m.free[di] <= 0 {
			return st, fmt.Sprintf("NO-FREE-SLOT: step %q but %s has %d free shard slots at that moment", line, mv[4], m.free[di])
		}
		m.bits[si][vid] &^= 1 << uint(shard)
		m.free[si]++
		m.bits[di][vid] |= 1 << uint(shard)
		m.free[di]--
		st.moves++
		sr, dr := m.l.nodes[si].rack, m.l.nodes[di].rack
		if sr != dr {
			st.crossRack++
			if len(m.racks) >= 2 {
				if c := m.rackCount(dr, vid); c > avg {
					return st, fmt.Sprintf("RACK-OVER-TARGET: step %q brings rack %s to %d shards of volume %d, even spread over %d racks allows %d", line, dr, c, vid, len(m.racks), avg)
				}
			}
		}
	}
	return st, ""
}

// compareFinal checks the planner's bookkeeping after planning against the
// initial layout (nothing lost, singly held stays singly held) and against the
// replayed model (bookkeeping = initial + printed steps).
func (m *model) compareFinal(initial *model, after []shell.VerifEcNode) string {
	fin := map[string]shell.VerifEcNode{}
	for _, a := range after {
		fin[a.Id] = a
	}
	finalHolders := func(vid uint32, shard int) (out []string) {
		for i, n := range m.l.nodes {
			if m.in[i] && fin[n.id].Shards[vid]&(1<<uint(shard)) != 0 {
				out = append(out, n.id)
			}
		}
		return
	}
	for _, vid := range m.l.vids {
		for s := 0; s < totalShards; s++ {
			was := initial.holders(vid, s)
			now := finalHolders(vid, s)
			if len(was) > 0 && len(now) == 0 {
				return fmt.Sprintf("SHARD-LOST: shard %d.%d was on %v, after planning no server has it in the planner's bookkeeping (replayed plan has it on %v)", vid, s, was, m.holders(vid, s))
			}
			if len(was) == 1 && len(now) != 1 {
				return fmt.Sprintf("SHARD-DUPLICATED: shard %d.%d was held once (%v), after planning it is on %v", vid, s, was, now)
			}
			if len(was) == 0 && len(now) > 0 {
				return fmt.Sprintf("SHARD-INVENTED: shard %d.%d did not exist, after planning it is on %v", vid, s, now)
			}
		}
	}
	for i, n := range m.l.nodes {
		if !m.in[i] {
			continue
		}
		a, ok := fin[n.id]
		if !ok {
			return fmt.Sprintf("server %s missing from the planner's bookkeeping", n.id)
		}
		for _, vid := range m.l.vids {
			if a.Shards[vid] != m.bits[i][vid] {
				return fmt.Sprintf("BOOKKEEPING-DIVERGES: %s volume %d: planner has shards {%s}, initial layout + printed steps give {%s}", n.id, vid, bitsText(a.Shards[vid]), bitsText(m.bits[i][vid]))
			}
		}
		if a.FreeEcSlot != m.free[i] {
			return fmt.Sprintf("FREE-SLOT-DIVERGES: %s: planner has %d free shard slots, initial layout + printed steps give %d", n.id, a.FreeEcSlot, m.free[i])
		}
	}
	return ""
}

// checkBefore validates the harness's reading of the snapshot (free slot
// formula, scope) against what the planner derived from the topology.
func (m *model) checkBefore(before []shell.VerifEcNode) string {
	n := 0
	for i := range m.in {
		if m.in[i] {
			n++
		}
	}
	if len(before) != n {
		return fmt.Sprintf("planner sees %d servers, harness %d", len(before), n)
	}
	for _, b := range before {
		i, ok := m.idx[b.Id]
		if !ok || !m.in[i] {
			return fmt.Sprintf("planner sees unexpected server %s", b.Id)
		}
		if b.FreeEcSlot != m.free[i] {
			return fmt.Sprintf("server %s: planner computes %d free shard slots, harness %d", b.Id, b.FreeEcSlot, m.free[i])
		}
		for _, vid := range m.l.vids {
			if b.Shards[vid] != m.bits[i][vid] {
				return fmt.Sprintf("server %s volume %d: planner reads shards {%s}, harness {%s}", b.Id, vid, bitsText(b.Shards[vid]), bitsText(m.bits[i][vid]))
			}
		}
	}
	return ""
}

// ------------------------------------------------------------------ the property

type runResult struct {
	stats  planStats
	breach string
	err    error
	out    string
}

// runBalance drives the planner once and judges the run.
func runBalance(l *layout, dc, collection string, colls []string) (res runResult) {
	defer func() {
		if r := recover(); r != nil {
			res.breach = fmt.Sprintf("PLANNER-PANIC: %v", r)
		}
	}()
	out, before, after, err := shell.VerifEcBalance(l.topology(), dc, collection, colls)
	res.out, res.err = out, err
	initial := newModel(l, dc)
	m := newModel(l, dc)
	if msg := m.checkBefore(before); msg != "" {
		res.breach = "HARNESS-ASSUMPTION: " + msg
		return
	}
	res.stats, res.breach = m.replayPlan(out)
	if res.breach != "" {
		return
	}
	res.breach = m.compareFinal(initial, after)
	return
}

func ecCollections(l *layout, dc string) []string {
	seen := map[string]bool{}
	for _, n := range l.nodes {
		for v := range n.shards {
			seen[l.colls[v]] = true
		}
	}
	var out []string
	for c := range seen {
		out = append(out, c)
	}
	sort.Strings(out)
	return out
}

func TestPropEcBalance(t *testing.T) {
	vlib.Check(t, 8000, 200000, func(t *rapid.T) {
		l := genLayout(t)
		dc := ""
		if rapid.IntRange(0, 5).Draw(t, "dcFilter") == 0 {
			dc = l.nodes[rapid.IntRange(0, len(l.nodes)-1).Draw(t, "dcOf")].dc
		}
		collection := "EACH_COLLECTION"
		if rapid.IntRange(0, 3).Draw(t, "namedCollection") == 0 {
			collection = rapid.SampledFrom([]string{"", "c1", "c2"}).Draw(t, "collectionName")
		}
		colls := rapid.Permutation(ecCollections(l, dc)).Draw(t, "collectionOrder")
		applyKnown(t, l, dc)

		cmd := fmt.Sprintf("ec.balance -collection=%q -dataCenter=%q (collections %q)", collection, dc, colls)
		res := runBalance(l, dc, collection, colls)
		if res.breach != "" {
			t.Fatalf("%s\n  command: %s\n  plan: %s\n  layout: %s", res.breach, cmd, strings.Join(res.stats.text, "; "), l)
		}

		m := newModel(l, dc)
		classes := []string{"ec-balance"}
		if res.err != nil {
			classes = append(classes, "no-free-slots-error")
		}
		if res.stats.moves > 0 {
			classes = append(classes, "with-moves")
		}
		if res.stats.crossRack > 0 {
			classes = append(classes, "with-cross-rack-moves")
		}
		if res.stats.moves > res.stats.crossRack {
			classes = append(classes, "with-in-rack-moves")
		}
		if res.stats.dedups > 0 {
			classes = append(classes, "with-duplicates")
		}
		if strings.Contains(res.out, "can not find a destination rack") {
			classes = append(classes, "no-destination-rack")
		}
		tight := false
		for i := range m.free {
			if m.in[i] && m.free[i] <= 0 {
				tight = true
			}
		}
		if tight {
			classes = append(classes, "has-full-server")
		}
		classes = append(classes, fmt.Sprintf("racks-%d", len(m.racks)))
		vlib.Case(cmd+" => "+strings.Join(res.stats.text, "; ")+" @ "+l.String(), len(m.racks) >= 2 && res.stats.moves > 0, classes...)
	})
}
