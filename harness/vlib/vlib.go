// Package vlib is the shared runtime of the verification harness: tier / seed /
// shard handling around rapid.Check, per-case classification and the statistics
// file the driver merges into /verif/evidence/<id>.json, the findings protocol,
// and scratch directories.
package vlib

import (
	"encoding/json"
	"flag"
	"fmt"
	"hash/fnv"
	"os"
	"path/filepath"
	"sort"
	"strconv"
	"strings"
	"sync"
	"testing"

	"github.com/chrislusf/seaweedfs/weed/util/fla9"
	"pgregory.net/rapid"
)

// ---------------------------------------------------------------- environment

func envInt(name string, def int) int {
	if v := os.Getenv(name); v != "" {
		if n, err := strconv.Atoi(v); err == nil {
			return n
		}
	}
	return def
}

// Tier is "quick" or "thorough".
func Tier() string {
	if os.Getenv("VERIF_TIER") == "thorough" {
		return "thorough"
	}
	return "quick"
}

func Thorough() bool { return Tier() == "thorough" }

// Seed is the VERIF_SEED value handed to the check (default 1).
func Seed() int { return envInt("VERIF_SEED", 1) }

// Shard / Shards: the driver runs the same test binary in several processes.
func Shard() int  { return envInt("VERIF_SHARD", 0) }
func Shards() int { return envInt("VERIF_SHARDS", 1) }

// Pick returns q in the quick tier and th in the thorough tier.
func Pick(q, th int) int {
	if Thorough() {
		return th
	}
	return q
}

// ---------------------------------------------------------------- statistics

type stats struct {
	mu          sync.Mutex
	Evaluations int64            `json:"evaluations"`
	Nontrivial  int64            `json:"nontrivial"`
	Hashes      map[uint64]bool  `json:"-"`
	HashList    []string         `json:"hashes"`
	Classes     map[string]int64 `json:"classes"`
	Samples     []string         `json:"samples"`
	Rules       []string         `json:"rules"`
	Assumptions []string         `json:"assumptions"`
	Excluded    map[string]int64 `json:"excluded"`
	Requested   map[string]int   `json:"requested"`
	Exhaustive  map[string]bool  `json:"exhaustive"`
	Notes       []string         `json:"notes"`
	sampleOf    map[string]string
	sampleNT    map[string]bool
}

var st = &stats{Hashes: map[uint64]bool{}, Classes: map[string]int64{}, Excluded: map[string]int64{}, Requested: map[string]int{}, Exhaustive: map[string]bool{}, sampleOf: map[string]string{}, sampleNT: map[string]bool{}}

// shrinking is set once a rapid property has failed, so that the many re-runs
// done while shrinking are not counted as explored cases.
var shrinking bool

func trim(s string, n int) string {
	if len(s) > n {
		return s[:n] + fmt.Sprintf("…(+%d bytes)", len(s)-n)
	}
	return s
}

// Case records one explored case. desc is a canonical description of the case
// (used for distinctness), nontrivial applies the property's stated rule,
// classes are labels for the distribution histogram.
func Case(desc string, nontrivial bool, classes ...string) {
	st.mu.Lock()
	defer st.mu.Unlock()
	if shrinking {
		return
	}
	st.Evaluations++
	for _, c := range classes {
		st.Classes[c]++
	}
	key := "trivial"
	if len(classes) > 0 {
		key = classes[0]
	}
	if nontrivial {
		st.Nontrivial++
		h := fnv.New64a()
		h.Write([]byte(desc))
		st.Hashes[h.Sum64()] = true
		st.Classes["nontrivial"]++
		// one written-out sample per (first) class label, non-trivial preferred
		if !st.sampleNT[key] && len(st.sampleOf) < 16 || st.sampleOf[key] != "" && !st.sampleNT[key] {
			st.sampleOf[key] = trim(desc, 1500)
			st.sampleNT[key] = true
		}
	} else {
		st.Classes["trivial"]++
		if _, ok := st.sampleOf[key]; !ok && len(st.sampleOf) < 16 {
			st.sampleOf[key] = trim(desc, 1500)
		}
	}
}

// Class adds to the class histogram without counting a case.
func Class(c string) {
	st.mu.Lock()
	st.Classes[c]++
	st.mu.Unlock()
}

// Excluded counts an input class left out by construction because of a listed finding.
func Excluded(key string) {
	st.mu.Lock()
	st.Excluded[key]++
	st.mu.Unlock()
}

func addUnique(l *[]string, s string) {
	for _, x := range *l {
		if x == s {
			return
		}
	}
	*l = append(*l, s)
}

// Rule states how cases are generated and what makes one non-trivial.
func Rule(s string) { st.mu.Lock(); addUnique(&st.Rules, s); st.mu.Unlock() }

// Assume records an assumption / trusted-base statement for the evidence file.
func Assume(s string) { st.mu.Lock(); addUnique(&st.Assumptions, s); st.mu.Unlock() }

// Note records free text (e.g. measured completeness) for the evidence file.
func Note(s string) { st.mu.Lock(); addUnique(&st.Notes, s); st.mu.Unlock() }

// Exhaustive marks that the named enumerator covered its finite space completely.
func Exhaustive(name string, ok bool) { st.mu.Lock(); st.Exhaustive[name] = ok; st.mu.Unlock() }

func writeStats() {
	out := os.Getenv("VERIF_STATS_OUT")
	if out == "" {
		return
	}
	st.mu.Lock()
	defer st.mu.Unlock()
	st.HashList = st.HashList[:0]
	for h := range st.Hashes {
		st.HashList = append(st.HashList, strconv.FormatUint(h, 16))
	}
	sort.Strings(st.HashList)
	st.Samples = st.Samples[:0]
	var keys []string
	for k := range st.sampleOf {
		keys = append(keys, k)
	}
	sort.Strings(keys)
	for _, k := range keys {
		st.Samples = append(st.Samples, "["+k+"] "+st.sampleOf[k])
	}
	b, _ := json.Marshal(st)
	_ = os.WriteFile(out, b, 0644)
}

// Main is the TestMain body of every property package.
func Main(m *testing.M) {
	flag.Parse()
	// seaweedfs' glog registers its flags in its own flag set and by default also
	// writes log files into os.TempDir(); keep everything on stderr (the shard log).
	_ = fla9.Set("logtostderr", "true")
	code := m.Run()
	writeStats()
	StopAllClusters()
	CleanupTemp()
	os.Exit(code)
}

// ---------------------------------------------------------------- rapid wrapper

func hashName(s string) uint64 {
	h := fnv.New64a()
	h.Write([]byte(s))
	return h.Sum64()
}

func flagSet(name string) bool {
	set := false
	flag.Visit(func(f *flag.Flag) {
		if f.Name == name {
			set = true
		}
	})
	return set
}

var explicitSeed, explicitChecks, flagsProbed bool

// Check runs prop under rapid with the case count for the current tier divided
// over the shard processes, and a PRNG seed that is a pure function of
// VERIF_SEED, the shard index and the test name (never 0).
func Check(t *testing.T, quickN, thoroughN int, prop func(*rapid.T)) {
	t.Helper()
	if !flagsProbed {
		flagsProbed = true
		explicitSeed = flagSet("rapid.seed")
		explicitChecks = flagSet("rapid.checks")
	}
	n := Pick(quickN, thoroughN)
	if s := os.Getenv("VERIF_SCALE"); s != "" {
		if f, err := strconv.ParseFloat(s, 64); err == nil && f > 0 {
			n = int(float64(n) * f)
		}
	}
	per := (n + Shards() - 1) / Shards()
	if per < 1 {
		per = 1
	}
	if !explicitChecks {
		_ = flag.Set("rapid.checks", strconv.Itoa(per))
	}
	if !explicitSeed {
		seed := (uint64(Seed())*1000003+uint64(Shard())+1)*0x9E3779B97F4A7C15 ^ hashName(t.Name())
		seed &= 0x7fffffffffffffff
		if seed == 0 {
			seed = 1
		}
		_ = flag.Set("rapid.seed", strconv.FormatUint(seed, 10))
	}
	st.mu.Lock()
	st.Requested[t.Name()] = per
	shrinking = false
	st.mu.Unlock()
	rapid.Check(t, func(rt *rapid.T) {
		defer func() {
			if r := recover(); r != nil {
				// rapid unwinds failures (and invalid-data skips) by panicking.
				// After the first real failure rapid only shrinks: stop counting.
				if !strings.Contains(fmt.Sprintf("%T", r), "invalidData") {
					shrinking = true
				}
				panic(r)
			}
		}()
		prop(rt)
	})
}

// Shard0Only skips a deterministic (non-sharded) enumerator in all shard
// processes but the first, so that it is executed and counted once.
func Shard0Only(t *testing.T) {
	if Shard() != 0 {
		t.Skip("deterministic enumerator runs in shard 0 only")
	}
}

// ShardOwns reports whether this shard process should handle item i of an
// enumeration (enumerators split their index space across shards).
func ShardOwns(i int) bool { return i%Shards() == Shard() }

// ---------------------------------------------------------------- findings

var (
	knownOnce sync.Once
	knownMap  = map[string]string{}
)

// loadKnown parses known_findings.txt lines
//   known: property=<id> key=<key> <what>
//   fixed: property=<id> <commit> key=<key> <what>
func loadKnown() {
	path := os.Getenv("VERIF_KNOWN")
	if path == "" {
		path = "/verif/known_findings.txt"
	}
	b, _ := os.ReadFile(path)
	extra, _ := filepath.Glob(filepath.Join(filepath.Dir(path), "known_findings.d", "*.txt"))
	for _, f := range extra {
		if x, err := os.ReadFile(f); err == nil {
			b = append(append(b, '\n'), x...)
		}
	}
	for _, line := range strings.Split(string(b), "\n") {
		line = strings.TrimSpace(line)
		status := ""
		if strings.HasPrefix(line, "known:") {
			status = "known"
		} else if strings.HasPrefix(line, "fixed:") {
			status = "fixed"
		} else {
			continue
		}
		for _, f := range strings.Fields(line) {
			if strings.HasPrefix(f, "key=") {
				knownMap[strings.TrimPrefix(f, "key=")] = status
				break
			}
		}
	}
}

// Known reports whether key is listed in known_findings.txt with status
// "known" (a recorded, unrepaired defect). Generators use it to exclude the
// failing input class by construction so that the search continues behind it;
// a "fixed" entry excludes nothing.
func Known(key string) bool {
	knownOnce.Do(loadKnown)
	return knownMap[key] == "known"
}

// Finding reports the outcome of a probe that re-runs the recorded failing
// input of a finding. The driver turns a reproducing listed finding into a
// KNOWN-FINDING line and a reproducing unlisted / fixed one into a VIOLATION.
func Finding(t *testing.T, key string, reproduces bool, detail string) {
	detail = strings.ReplaceAll(trim(detail, 400), "\n", " ")
	fmt.Printf("VERIF-FINDING key=%s reproduces=%v detail=%s\n", key, reproduces, detail)
}

// ---------------------------------------------------------------- scratch dirs

var (
	tmpMu   sync.Mutex
	tmpRoot string
)

func tempRoot() string {
	tmpMu.Lock()
	defer tmpMu.Unlock()
	if tmpRoot == "" {
		base := os.Getenv("VERIF_TMP")
		if base == "" {
			base = os.TempDir()
		}
		d, err := os.MkdirTemp(base, "vh-")
		if err != nil {
			panic(err)
		}
		tmpRoot = d
	}
	return tmpRoot
}

// TempDir returns a fresh scratch directory (outside /repo and /verif).
// The caller should os.RemoveAll it at the end of the case; everything left
// over is removed by Main.
func TempDir() string {
	d, err := os.MkdirTemp(tempRoot(), "c-")
	if err != nil {
		panic(err)
	}
	return d
}

func CleanupTemp() {
	tmpMu.Lock()
	defer tmpMu.Unlock()
	if tmpRoot != "" {
		_ = os.RemoveAll(tmpRoot)
		tmpRoot = ""
	}
}

// ReplayDir is where tests may drop human-readable traces for a failure.
func ReplayDir() string {
	d := os.Getenv("VERIF_REPLAY_DIR")
	if d == "" {
		d = filepath.Join(os.TempDir(), "verif-replays")
	}
	_ = os.MkdirAll(d, 0755)
	return d
}
