package vlib

// Engine C: a black-box mini cluster made of child processes of the real `weed`
// binary (built by the driver from /repo's working tree, path in $VERIF_WEED).

import (
	"bytes"
	"encoding/json"
	"fmt"
	"io"
	"net"
	"net/http"
	"os"
	"os/exec"
	"path/filepath"
	"strings"
	"sync"
	"syscall"
	"time"
)

// ClusterOpts selects the processes and their configuration.
type ClusterOpts struct {
	Volumes            int      // number of volume servers (default 1)
	VolumeMax          int      // -max per volume server (default 50)
	VolumeArgs         []string // extra args for every volume server
	VolumeRacks        []string // optional rack per volume server
	VolumeDCs          []string // optional data center per volume server
	MasterArgs         []string
	VolumeSizeLimitMB  int    // default 64
	DefaultReplication string // default "000"
	MasterToml         string // content of master.toml (default: grow 1 volume at a time)
	SecurityToml       string // content of security.toml for every process ("" = none)
	VolumeSecurityToml []string
	Filer              bool
	FilerArgs          []string
	S3                 bool
	S3Config           string // identities JSON ("" = no auth)
	S3Args             []string
}

type Proc struct {
	Name    string
	Cmd     *exec.Cmd
	Dir     string
	LogPath string
	Port    int
	args    []string
	weed    string
	done    chan struct{}
}

type Cluster struct {
	Dir        string
	Opts       ClusterOpts
	Master     *Proc
	VolumeSrv  []*Proc
	FilerProc  *Proc
	S3Proc     *Proc
	extra      []*Proc
	mu         sync.Mutex
	stopped    bool
	HTTPClient *http.Client
}

func (c *Cluster) MasterAddr() string { return fmt.Sprintf("127.0.0.1:%d", c.Master.Port) }
func (c *Cluster) MasterURL() string  { return "http://" + c.MasterAddr() }
func (c *Cluster) VolumeAddr(i int) string {
	return fmt.Sprintf("127.0.0.1:%d", c.VolumeSrv[i].Port)
}
func (c *Cluster) VolumeURL(i int) string { return "http://" + c.VolumeAddr(i) }
func (c *Cluster) FilerAddr() string      { return fmt.Sprintf("127.0.0.1:%d", c.FilerProc.Port) }
func (c *Cluster) FilerURL() string       { return "http://" + c.FilerAddr() }
func (c *Cluster) FilerGrpcAddr() string  { return fmt.Sprintf("127.0.0.1:%d", c.FilerProc.Port+10000) }
func (c *Cluster) S3Addr() string         { return fmt.Sprintf("127.0.0.1:%d", c.S3Proc.Port) }
func (c *Cluster) S3URL() string          { return "http://" + c.S3Addr() }

var (
	clustersMu sync.Mutex
	clusters   []*Cluster
)

// StopAllClusters is called by Main after the tests ran.
func StopAllClusters() {
	clustersMu.Lock()
	cs := clusters
	clusters = nil
	clustersMu.Unlock()
	for _, c := range cs {
		c.Stop()
	}
}

var portMu sync.Mutex
var nextPort int

// FreePort returns p such that p and p+10000 were both free a moment ago.
func FreePort() int {
	portMu.Lock()
	defer portMu.Unlock()
	if nextPort == 0 {
		nextPort = 20000 + (os.Getpid()*37+Shard()*997)%20000
	}
	for i := 0; i < 5000; i++ {
		p := nextPort
		nextPort++
		if nextPort >= 45000 {
			nextPort = 20000
		}
		if portFree(p) && portFree(p+10000) {
			return p
		}
	}
	panic("no free port pair")
}

func portFree(p int) bool {
	l, err := net.Listen("tcp", fmt.Sprintf("127.0.0.1:%d", p))
	if err != nil {
		return false
	}
	l.Close()
	l2, err := net.Listen("tcp", fmt.Sprintf(":%d", p))
	if err != nil {
		return false
	}
	l2.Close()
	return true
}

// WeedBinary returns the path of the weed binary built by the driver.
func WeedBinary() string {
	w := os.Getenv("VERIF_WEED")
	if w == "" {
		panic("VERIF_WEED is not set: this check needs \"needs_weed\": true in checks.d")
	}
	return w
}

func startProc(name, dir string, port int, files map[string]string, args ...string) (*Proc, error) {
	if err := os.MkdirAll(dir, 0755); err != nil {
		return nil, err
	}
	for fn, content := range files {
		if content == "" {
			continue
		}
		if err := os.WriteFile(filepath.Join(dir, fn), []byte(content), 0644); err != nil {
			return nil, err
		}
	}
	p := &Proc{Name: name, Dir: dir, Port: port, args: args, weed: WeedBinary(), LogPath: filepath.Join(dir, name+".log")}
	return p, p.Start()
}

// Start (re)starts the process with its original arguments.
func (p *Proc) Start() error {
	lf, err := os.OpenFile(p.LogPath, os.O_CREATE|os.O_WRONLY|os.O_APPEND, 0644)
	if err != nil {
		return err
	}
	cmd := exec.Command(p.weed, p.args...)
	cmd.Dir = p.Dir
	cmd.Stdout = lf
	cmd.Stderr = lf
	cmd.Env = append(os.Environ(), "HOME="+p.Dir)
	if err := cmd.Start(); err != nil {
		lf.Close()
		return err
	}
	p.Cmd = cmd
	p.done = make(chan struct{})
	go func(done chan struct{}) {
		cmd.Wait()
		lf.Close()
		close(done)
	}(p.done)
	return nil
}

// Alive reports whether the process is still running.
func (p *Proc) Alive() bool {
	select {
	case <-p.done:
		return false
	default:
		return true
	}
}

// Kill stops the process (SIGKILL) and waits for it.
func (p *Proc) Kill() {
	if p == nil || p.Cmd == nil || p.Cmd.Process == nil {
		return
	}
	p.Cmd.Process.Kill()
	<-p.done
}

// Signal sends sig (e.g. SIGSTOP / SIGCONT / SIGTERM).
func (p *Proc) Signal(sig syscall.Signal) { p.Cmd.Process.Signal(sig) }

// LogTail returns the last n bytes of the process log.
func (p *Proc) LogTail(n int) string {
	b, _ := os.ReadFile(p.LogPath)
	if len(b) > n {
		b = b[len(b)-n:]
	}
	return string(b)
}

func waitHTTP(url string, ok func(code int, body []byte) bool, timeout time.Duration, p *Proc) error {
	deadline := time.Now().Add(timeout)
	cl := &http.Client{Timeout: 2 * time.Second}
	var last string
	for time.Now().Before(deadline) {
		if p != nil && !p.Alive() {
			return fmt.Errorf("%s exited during start: %s", p.Name, p.LogTail(2000))
		}
		resp, err := cl.Get(url)
		if err == nil {
			b, _ := io.ReadAll(resp.Body)
			resp.Body.Close()
			if ok(resp.StatusCode, b) {
				return nil
			}
			last = fmt.Sprintf("status %d %s", resp.StatusCode, trim(string(b), 200))
		} else {
			last = err.Error()
		}
		time.Sleep(100 * time.Millisecond)
	}
	tail := ""
	if p != nil {
		tail = p.LogTail(1500)
	}
	return fmt.Errorf("timeout waiting for %s (%s) %s", url, last, tail)
}

const defaultMasterToml = `
[master.volume_growth]
copy_1 = 1
copy_2 = 1
copy_3 = 1
copy_other = 1
`

// StartCluster starts master, volume servers and optionally filer and s3, and
// waits until they answer and every volume server is registered.
func StartCluster(o ClusterOpts) (c *Cluster, err error) {
	for attempt := 0; attempt < 3; attempt++ {
		if c, err = startClusterOnce(o); err == nil {
			return c, nil
		}
		time.Sleep(500 * time.Millisecond)
	}
	return nil, err
}

func startClusterOnce(o ClusterOpts) (*Cluster, error) {
	if o.Volumes == 0 {
		o.Volumes = 1
	}
	if o.VolumeMax == 0 {
		o.VolumeMax = 50
	}
	if o.VolumeSizeLimitMB == 0 {
		o.VolumeSizeLimitMB = 64
	}
	if o.DefaultReplication == "" {
		o.DefaultReplication = "000"
	}
	if o.MasterToml == "" {
		o.MasterToml = defaultMasterToml
	}
	c := &Cluster{Dir: TempDir(), Opts: o, HTTPClient: &http.Client{Timeout: 60 * time.Second}}
	clustersMu.Lock()
	clusters = append(clusters, c)
	clustersMu.Unlock()
	var err error
	fail := func(e error) (*Cluster, error) { c.Stop(); return nil, e }

	mp := FreePort()
	mdir := filepath.Join(c.Dir, "master")
	args := []string{"-logtostderr=true", "master", "-ip=127.0.0.1", fmt.Sprintf("-port=%d", mp), "-mdir=" + mdir,
		fmt.Sprintf("-volumeSizeLimitMB=%d", o.VolumeSizeLimitMB), "-defaultReplication=" + o.DefaultReplication}
	// the master's own periodic vacuum (every 15 minutes, threshold 0.3) would compact volumes at
	// moments no history models; no volume can reach a garbage ratio of 2, on-demand /vol/vacuum still works
	hasThreshold := false
	for _, a := range o.MasterArgs {
		if strings.HasPrefix(a, "-garbageThreshold") {
			hasThreshold = true
		}
	}
	if !hasThreshold {
		args = append(args, "-garbageThreshold=2")
	}
	args = append(args, o.MasterArgs...)
	c.Master, err = startProc("master", mdir, mp, map[string]string{"master.toml": o.MasterToml, "security.toml": o.SecurityToml}, args...)
	if err != nil {
		return fail(err)
	}
	if err = waitHTTP(c.MasterURL()+"/cluster/status", func(code int, b []byte) bool {
		return code == 200 && bytes.Contains(b, []byte(`"IsLeader":true`))
	}, 120*time.Second, c.Master); err != nil {
		return fail(err)
	}
	for i := 0; i < o.Volumes; i++ {
		if _, err = c.AddVolumeServer(i); err != nil {
			return fail(err)
		}
	}
	if err = c.WaitVolumeServers(o.Volumes, 120*time.Second); err != nil {
		return fail(err)
	}
	if o.Filer || o.S3 {
		fp := FreePort()
		fdir := filepath.Join(c.Dir, "filer")
		args := []string{"-logtostderr=true", "filer", "-ip=127.0.0.1", fmt.Sprintf("-port=%d", fp), "-master=" + c.MasterAddr(), "-defaultStoreDir=" + fdir}
		args = append(args, o.FilerArgs...)
		c.FilerProc, err = startProc("filer", fdir, fp, map[string]string{"security.toml": o.SecurityToml}, args...)
		if err != nil {
			return fail(err)
		}
		if err = waitHTTP(c.FilerURL()+"/", func(code int, b []byte) bool { return code < 500 }, 60*time.Second, c.FilerProc); err != nil {
			return fail(err)
		}
	}
	if o.S3 {
		sp := FreePort()
		sdir := filepath.Join(c.Dir, "s3")
		args := []string{"-logtostderr=true", "s3", fmt.Sprintf("-port=%d", sp), "-filer=" + c.FilerAddr()}
		files := map[string]string{"security.toml": o.SecurityToml}
		if o.S3Config != "" {
			files["s3.json"] = o.S3Config
			args = append(args, "-config="+filepath.Join(sdir, "s3.json"))
		}
		args = append(args, o.S3Args...)
		c.S3Proc, err = startProc("s3", sdir, sp, files, args...)
		if err != nil {
			return fail(err)
		}
		if err = waitHTTP(c.S3URL()+"/", func(code int, b []byte) bool { return code < 500 }, 60*time.Second, c.S3Proc); err != nil {
			return fail(err)
		}
	}
	return c, nil
}

// AddVolumeServer starts volume server number i (its own dir, port, rack).
func (c *Cluster) AddVolumeServer(i int) (p *Proc, err error) {
	// ports are probed, not reserved: another cluster on this machine may grab
	// one in between, so a failed start is retried on fresh ports
	for attempt := 0; attempt < 4; attempt++ {
		if p, err = c.addVolumeServerOnce(i); err == nil {
			return p, nil
		}
		time.Sleep(300 * time.Millisecond)
	}
	return nil, err
}

func (c *Cluster) addVolumeServerOnce(i int) (*Proc, error) {
	o := c.Opts
	vp := FreePort()
	vdir := filepath.Join(c.Dir, fmt.Sprintf("vol%d", i))
	args := []string{"-logtostderr=true", "volume", "-ip=127.0.0.1", fmt.Sprintf("-port=%d", vp), "-dir=" + vdir,
		fmt.Sprintf("-max=%d", o.VolumeMax), "-mserver=" + c.MasterAddr(), "-preStopSeconds=0"}
	if i < len(o.VolumeRacks) && o.VolumeRacks[i] != "" {
		args = append(args, "-rack="+o.VolumeRacks[i])
	}
	if i < len(o.VolumeDCs) && o.VolumeDCs[i] != "" {
		args = append(args, "-dataCenter="+o.VolumeDCs[i])
	}
	args = append(args, o.VolumeArgs...)
	sec := o.SecurityToml
	if i < len(o.VolumeSecurityToml) {
		sec = o.VolumeSecurityToml[i]
	}
	p, err := startProc(fmt.Sprintf("volume%d", i), vdir, vp, map[string]string{"security.toml": sec}, args...)
	if err != nil {
		return nil, err
	}
	if err = waitHTTP(fmt.Sprintf("http://127.0.0.1:%d/status", vp), func(code int, b []byte) bool { return code == 200 }, 90*time.Second, p); err != nil {
		p.Kill()
		os.RemoveAll(vdir)
		return nil, err
	}
	c.VolumeSrv = append(c.VolumeSrv, p)
	return p, nil
}

// WaitVolumeServers waits until the master's topology lists n data nodes.
func (c *Cluster) WaitVolumeServers(n int, timeout time.Duration) error {
	return waitHTTP(c.MasterURL()+"/dir/status", func(code int, b []byte) bool {
		if code != 200 {
			return false
		}
		return strings.Count(string(b), `"Url":`) >= n
	}, timeout, c.Master)
}

// AllAlive reports the name of a dead process, or "".
func (c *Cluster) AllAlive() string {
	ps := append([]*Proc{c.Master, c.FilerProc, c.S3Proc}, c.VolumeSrv...)
	for _, p := range ps {
		if p != nil && !p.Alive() {
			return p.Name
		}
	}
	return ""
}

// Stop kills every process and removes the cluster directory.
func (c *Cluster) Stop() {
	c.mu.Lock()
	defer c.mu.Unlock()
	if c.stopped {
		return
	}
	c.stopped = true
	for _, p := range append(append([]*Proc{c.S3Proc, c.FilerProc}, c.extra...), c.VolumeSrv...) {
		if p != nil {
			p.Kill()
		}
	}
	if c.Master != nil {
		c.Master.Kill()
	}
	os.RemoveAll(c.Dir)
}

// AssignResult is the master's answer to /dir/assign.
type AssignResult struct {
	Fid       string `json:"fid"`
	Url       string `json:"url"`
	PublicUrl string `json:"publicUrl"`
	Count     int    `json:"count"`
	Error     string `json:"error"`
}

// Assign asks the master for a file id (query e.g. "replication=001&ttl=3m").
func (c *Cluster) Assign(query string) (*AssignResult, error) {
	var last error
	for i := 0; i < 30; i++ {
		resp, err := c.HTTPClient.Get(c.MasterURL() + "/dir/assign?" + query)
		if err != nil {
			last = err
			time.Sleep(200 * time.Millisecond)
			continue
		}
		b, _ := io.ReadAll(resp.Body)
		resp.Body.Close()
		var r AssignResult
		if err := json.Unmarshal(b, &r); err != nil {
			last = fmt.Errorf("assign: %s", b)
		} else if r.Error != "" || r.Fid == "" {
			last = fmt.Errorf("assign: %s", r.Error)
		} else {
			return &r, nil
		}
		time.Sleep(200 * time.Millisecond)
	}
	return nil, last
}

// ---------------------------------------------------------------- HTTP helpers

// RawClient never follows redirects and never adds Accept-Encoding by itself.
var RawClient = &http.Client{
	Timeout:       60 * time.Second,
	Transport:     &http.Transport{DisableCompression: true, MaxIdleConnsPerHost: 16},
	CheckRedirect: func(req *http.Request, via []*http.Request) error { return http.ErrUseLastResponse },
}

// Do sends a request with the given headers and returns status, headers and body.
func Do(method, url string, headers map[string]string, body []byte) (int, http.Header, []byte, error) {
	var rd io.Reader
	if body != nil {
		rd = bytes.NewReader(body)
	}
	req, err := http.NewRequest(method, url, rd)
	if err != nil {
		return 0, nil, nil, err
	}
	for k, v := range headers {
		if strings.EqualFold(k, "Host") {
			req.Host = v
		} else {
			req.Header[k] = []string{v} // keep the exact key spelling
		}
	}
	resp, err := RawClient.Do(req)
	if err != nil {
		return 0, nil, nil, err
	}
	defer resp.Body.Close()
	b, err := io.ReadAll(resp.Body)
	return resp.StatusCode, resp.Header, b, err
}

// MultipartBody builds the multipart/form-data body the seaweedfs clients send:
// one part "file" with filename, optional Content-Type and Content-Encoding: gzip.
func MultipartBody(data []byte, filename, mime string, gzipped bool) (contentType string, body []byte) {
	var buf bytes.Buffer
	boundary := "----verifBoundary7MA4YWxkTrZu0gW"
	esc := strings.NewReplacer("\\", "\\\\", `"`, "\\\"")
	fmt.Fprintf(&buf, "--%s\r\n", boundary)
	fmt.Fprintf(&buf, "Content-Disposition: form-data; name=\"file\"; filename=\"%s\"\r\n", esc.Replace(filename))
	if mime != "" {
		fmt.Fprintf(&buf, "Content-Type: %s\r\n", mime)
	}
	if gzipped {
		fmt.Fprintf(&buf, "Content-Encoding: gzip\r\n")
	}
	buf.WriteString("\r\n")
	buf.Write(data)
	fmt.Fprintf(&buf, "\r\n--%s--\r\n", boundary)
	return "multipart/form-data; boundary=" + boundary, buf.Bytes()
}

// UploadMultipart POSTs data to url (http://volume/fid[?query]) like operation.Upload does.
func UploadMultipart(url string, data []byte, filename, mime string, gzipped bool, headers map[string]string) (int, []byte, error) {
	ct, body := MultipartBody(data, filename, mime, gzipped)
	h := map[string]string{"Content-Type": ct}
	for k, v := range headers {
		h[k] = v
	}
	code, _, b, err := Do("POST", url, h, body)
	return code, b, err
}

// AddFiler starts an additional filer process (own store dir and port) with
// extra arguments; it is stopped with the cluster. Returns the process (HTTP
// port p, gRPC port p+10000).
func (c *Cluster) AddFiler(name string, args ...string) (*Proc, error) {
	fp := FreePort()
	fdir := filepath.Join(c.Dir, name)
	a := []string{"-logtostderr=true", "filer", "-ip=127.0.0.1", fmt.Sprintf("-port=%d", fp), "-master=" + c.MasterAddr(), "-defaultStoreDir=" + fdir}
	a = append(a, args...)
	p, err := startProc(name, fdir, fp, map[string]string{"security.toml": c.Opts.SecurityToml}, a...)
	if err != nil {
		return nil, err
	}
	c.mu.Lock()
	c.extra = append(c.extra, p)
	c.mu.Unlock()
	if err = waitHTTP(fmt.Sprintf("http://127.0.0.1:%d/", fp), func(code int, b []byte) bool { return code < 500 }, 60*time.Second, p); err != nil {
		return nil, err
	}
	return p, nil
}
