// C15 Volume balancing and replica repair never break placement.
package c15

import (
	"fmt"
	"regexp"
	"sort"
	"strconv"
	"strings"
	"testing"

	"github.com/chrislusf/seaweedfs/weed/shell"
	"pgregory.net/rapid"

	"verifharness/vlib"
)

func TestMain(m *testing.M) {
	vlib.Rule("C15: rapid-generated cluster snapshots (1-3 data centers x 1-3 racks x 1-4 servers, hdd/ssd disks with max 0-10, 0-25 volumes over all 27 replication settings, collections \"\",a,b, read-only/full flags, replica sets built from the definition of the setting and then left complete, thinned out, over-filled or random) are handed as master_pb.TopologyInfo to the real volume.balance (every collection mode, optional -dataCenter), volumeServer.evacuate (every server) and volume.fix.replication -n code through weed/shell/verif_export.go; every printed step is replayed in order on an independent model. Non-trivial = snapshot with >=1 replicated volume (copy count > 1) and >=1 planned step. Distinct = distinct (snapshot, command, plan) text.")
	vlib.Rule("C15: bounded-exhaustive enumeration of isGoodMove and satisfyReplicaPlacement over all 27 settings and all replica sets of up to 4 servers in a 3 dc x 3 rack x 2 server universe against the same independent placement predicates.")
	vlib.Assume("C15: the TopologyInfo given to the planners is what the master would report (VolumeCount = number of listed volumes, all replicas of a volume share replication setting, collection and disk type); EC shards are absent from these snapshots; a server's free capacity for a disk type is max volume count minus the volumes the model currently has on that disk.")
	vlib.Assume("C15: volume.balance and fix.replication are driven through shims that repeat the bodies of their Do() methods after the topology fetch (no master, no lock); the order in which Do() visits disk types / volume ids (Go map order in production) is drawn by the generator.")
	vlib.Main(m)
}

// ------------------------------------------------------------------ parsing the printed plans

var (
	reMove      = regexp.MustCompile(`^  moving (\S*) volume (\S+) (\S+) => (\S+)$`)
	reReplicate = regexp.MustCompile(`^replicating volume (\d+) (\d\d\d) from (\S+) to dataNode (\S+) \.\.\.$`)
	reDelete    = regexp.MustCompile(`^deleting volume (\d+) from (\S+) \.\.\.$`)
)

func parseMoves(out string) (steps []step, err error) {
	for _, line := range strings.Split(out, "\n") {
		if !strings.HasPrefix(line, "  moving ") {
			continue
		}
		m := reMove.FindStringSubmatch(line)
		if m == nil {
			return nil, fmt.Errorf("cannot parse plan line %q", line)
		}
		name := m[2]
		if i := strings.LastIndex(name, "_"); i >= 0 {
			name = name[i+1:]
		}
		vid, e := strconv.ParseUint(name, 10, 32)
		if e != nil {
			return nil, fmt.Errorf("cannot parse volume in plan line %q", line)
		}
		steps = append(steps, step{kind: stepMove, vid: uint32(vid), src: m[3], dst: m[4], line: strings.TrimSpace(line)})
	}
	return
}

func parseFix(out string) (steps []step, failed int, err error) {
	for _, line := range strings.Split(out, "\n") {
		switch {
		case strings.HasPrefix(line, "replicating volume "):
			m := reReplicate.FindStringSubmatch(line)
			if m == nil {
				return nil, 0, fmt.Errorf("cannot parse plan line %q", line)
			}
			vid, _ := strconv.ParseUint(m[1], 10, 32)
			steps = append(steps, step{kind: stepCopy, vid: uint32(vid), src: m[3], dst: m[4], line: line})
		case strings.HasPrefix(line, "deleting volume "):
			m := reDelete.FindStringSubmatch(line)
			if m == nil {
				return nil, 0, fmt.Errorf("cannot parse plan line %q", line)
			}
			vid, _ := strconv.ParseUint(m[1], 10, 32)
			steps = append(steps, step{kind: stepDelete, vid: uint32(vid), src: m[2], line: line})
		case strings.HasPrefix(line, "failed to place volume "):
			failed++
		}
	}
	return
}

func planText(steps []step) string {
	var l []string
	for _, s := range steps {
		l = append(l, s.line)
	}
	return strings.Join(l, "; ")
}

// replay checks every step; on a breach it fails the case with the full input.
func replay(t *rapid.T, s *snapshot, cmd string, steps []step) {
	m := newModel(s)
	for i, st := range steps {
		if msg := m.apply(st); msg != "" {
			t.Fatalf("%s\n  command: %s\n  step %d of plan: %s\n  snapshot: %s", msg, cmd, i+1, planText(steps), s)
		}
	}
}

func hasReplicated(s *snapshot) bool {
	for _, v := range s.vols {
		if v.copies() > 1 {
			return true
		}
	}
	return false
}

func collectionsOf(s *snapshot) []string {
	seen := map[string]bool{}
	for _, v := range s.vols {
		seen[v.coll] = true
	}
	var out []string
	for c := range seen {
		out = append(out, c)
	}
	sort.Strings(out)
	return out
}

func safely(t *rapid.T, s *snapshot, cmd string, fn func()) {
	defer func() {
		if r := recover(); r != nil {
			if strings.Contains(fmt.Sprintf("%T", r), "rapid") || strings.Contains(fmt.Sprint(r), "rapid") {
				panic(r)
			}
			t.Fatalf("planner panicked: %v\n  command: %s\n  snapshot: %s", r, cmd, s)
		}
	}()
	fn()
}

// ------------------------------------------------------------------ volume.balance

func TestPropBalance(t *testing.T) {
	vlib.Check(t, 6000, 120000, func(t *rapid.T) {
		shape := rapid.IntRange(0, 9).Draw(t, "shape")
		o := genOpts{wantUnder: 2, wantOver: 2, concentrate: shape > 1, minVol: 4}
		if shape >= 6 {
			o = genOpts{wantUnder: 1, wantOver: 1, concentrate: true, hotspot: true, minVol: 4}
		}
		s := genSnapshot(t, o)
		mode := rapid.SampledFrom([]string{"EACH_COLLECTION", "EACH_COLLECTION", "ALL_COLLECTIONS", "ALL_COLLECTIONS", "", "a", "b"}).Draw(t, "collection")
		if o.hotspot && mode != "EACH_COLLECTION" && mode != "ALL_COLLECTIONS" && len(s.vols) > 0 && rapid.IntRange(0, 3).Draw(t, "hotspotNamed") > 0 {
			mode = s.vols[len(s.vols)/2].coll // most likely the dominant collection
		}
		dc := ""
		if rapid.IntRange(0, 4).Draw(t, "dcFilter") == 0 && !(o.hotspot && rapid.Bool().Draw(t, "hotspotNoDcFilter")) {
			dc = s.servers[rapid.IntRange(0, len(s.servers)-1).Draw(t, "dcOf")].dc
		}
		colls := rapid.Permutation(collectionsOf(s)).Draw(t, "collectionOrder")
		reverse := rapid.Bool().Draw(t, "reverseDiskTypes")

		// volume.balance indexes an empty slice (panics) when no selected server
		// has capacity for a disk type that exists somewhere in the topology; that
		// produces no plan at all and is outside this property: such inputs get
		// one slot of capacity on a selected server.
		for _, d := range []string{"", "ssd"} {
			exists, capable, first := false, false, -1
			for i, sv := range s.servers {
				mx, ok := sv.max[d]
				if ok {
					exists = true
				}
				if dc == "" || sv.dc == dc {
					if first < 0 {
						first = i
					}
					if ok && mx > 0 {
						capable = true
					}
				}
			}
			if exists && !capable {
				if _, ok := s.servers[first].max[d]; !ok || s.servers[first].max[d] == 0 {
					s.servers[first].max[d] = 1
				}
				vlib.Class("balance-adjusted-no-capacity-for-disk-type")
			}
		}
		applyKnownBalance(t, s)

		cmd := fmt.Sprintf("volume.balance -collection=%q -dataCenter=%q (collections %q, disk types reversed=%v)", mode, dc, colls, reverse)
		var out string
		var err error
		safely(t, s, cmd, func() {
			out, err = shell.VerifVolumeBalance(s.topology(), sizeLimit, dc, mode, colls, reverse)
		})
		if err != nil {
			t.Fatalf("volume.balance dry run failed: %v\n  command: %s\n  snapshot: %s", err, cmd, s)
		}
		steps, perr := parseMoves(out)
		if perr != nil {
			t.Fatalf("%v", perr)
		}
		replay(t, s, cmd, steps)

		classes := []string{"balance"}
		if o.hotspot {
			classes = append(classes, "balance-hotspot-shape")
			if len(steps) > 0 {
				classes = append(classes, "balance-hotspot-shape-with-moves")
			}
		}
		if len(steps) >= 2 {
			classes = append(classes, "balance-with-2+-moves")
		}
		if len(steps) >= 5 {
			classes = append(classes, "balance-with-5+-moves")
		}
		// the sequential hazard: a later step concerns a replicated volume one of whose
		// replicas sits on a server that an earlier step (of another volume) moved away from
		{
			mm := newModel(s)
			earlier := map[string]uint32{}
			sibling, fromEarlier := false, false
			for _, st := range steps {
				if mm.vols[st.vid].copies() > 1 {
					for _, l := range mm.locs(st.vid) {
						if vid, ok := earlier[l.id]; ok && vid != st.vid {
							if l.id == st.src {
								fromEarlier = true
							} else {
								sibling = true
							}
						}
					}
				}
				mm.apply(st)
				if _, ok := earlier[st.src]; !ok {
					earlier[st.src] = st.vid
				}
			}
			if sibling {
				classes = append(classes, "balance-moves-volume-whose-sibling-is-on-earlier-source")
			}
			if fromEarlier {
				classes = append(classes, "balance-moves-replicated-volume-from-earlier-source")
			}
		}
		if len(steps) > 0 {
			classes = append(classes, "balance-with-moves")
			movedReplicated := false
			m := newModel(s)
			for _, st := range steps {
				if m.vols[st.vid].copies() > 1 {
					movedReplicated = true
				}
			}
			if movedReplicated {
				classes = append(classes, "balance-moves-replicated-volume")
			}
		}
		classes = append(classes, "balance-mode-"+map[bool]string{true: "named", false: mode}[mode != "EACH_COLLECTION" && mode != "ALL_COLLECTIONS"])
		if dc != "" {
			classes = append(classes, "balance-dc-filter")
		}
		vlib.Case(cmd+" => "+planText(steps)+" @ "+s.String(), hasReplicated(s) && len(steps) > 0, classes...)
	})
}

// ------------------------------------------------------------------ volumeServer.evacuate

func TestPropEvacuate(t *testing.T) {
	vlib.Check(t, 6000, 120000, func(t *rapid.T) {
		s := genSnapshot(t, genOpts{wantUnder: 2, wantOver: 2})
		// prefer a server that holds something
		var holders []int
		seen := map[int]bool{}
		for _, v := range s.vols {
			for _, r := range v.replicas {
				if !seen[r.srv] {
					seen[r.srv] = true
					holders = append(holders, r.srv)
				}
			}
		}
		sort.Ints(holders)
		target := rapid.IntRange(0, len(s.servers)-1).Draw(t, "server")
		if len(holders) > 0 && rapid.IntRange(0, 9).Draw(t, "preferHolder") > 0 {
			target = holders[rapid.IntRange(0, len(holders)-1).Draw(t, "holder")]
		}
		skip := rapid.IntRange(0, 3).Draw(t, "skipNonMoveable") > 0
		applyKnownEvacuate(t, s, target)

		cmd := fmt.Sprintf("volumeServer.evacuate -node=%s -skipNonMoveable=%v", s.servers[target].id, skip)
		var out, written string
		var err error
		safely(t, s, cmd, func() {
			out, written, err = shell.VerifEvacuateNormalVolumes(s.topology(), s.servers[target].id, skip)
		})
		if err != nil && skip {
			t.Fatalf("evacuate dry run failed although -skipNonMoveable: %v\n  command: %s\n  snapshot: %s", err, cmd, s)
		}
		steps, perr := parseMoves(out)
		if perr != nil {
			t.Fatalf("%v", perr)
		}
		for _, st := range steps {
			if st.src != s.servers[target].id {
				t.Fatalf("evacuate of %s moves from another server: %s\n  snapshot: %s", s.servers[target].id, st.line, s)
			}
		}
		replay(t, s, cmd, steps)

		classes := []string{"evacuate"}
		if len(steps) > 0 {
			classes = append(classes, "evacuate-with-moves")
			m := newModel(s)
			for _, st := range steps {
				if m.vols[st.vid].copies() > 1 {
					classes = append(classes, "evacuate-moves-replicated-volume")
					break
				}
			}
		}
		if strings.Contains(written, "skipping non moveable") || err != nil {
			classes = append(classes, "evacuate-some-not-moveable")
		}
		vlib.Case(cmd+" => "+planText(steps)+" @ "+s.String(), hasReplicated(s) && len(steps) > 0, classes...)
	})
}

// ------------------------------------------------------------------ volume.fix.replication -n

func TestPropFixReplication(t *testing.T) {
	vlib.Check(t, 6000, 120000, func(t *rapid.T) {
		over := rapid.SampledFrom([]int{0, 0, 0, 2}).Draw(t, "overWeight")
		s := genSnapshot(t, genOpts{wantUnder: 8, wantOver: over})
		var vids []uint32
		for _, v := range s.vols {
			vids = append(vids, v.id)
		}
		order := rapid.Permutation(vids).Draw(t, "vidOrder")
		pattern := rapid.SampledFrom([]string{"", "", "", "a", "*", "b*"}).Draw(t, "collectionPattern")
		applyKnownFix(t, s)

		cmd := fmt.Sprintf("volume.fix.replication -n -collectionPattern=%q (volume id order %v)", pattern, order)
		var out string
		var err error
		safely(t, s, cmd, func() {
			out, err = shell.VerifFixReplication(s.topology(), pattern, order)
		})
		if err != nil {
			t.Fatalf("fix.replication dry run failed: %v\n  command: %s\n  snapshot: %s", err, cmd, s)
		}
		steps, failed, perr := parseFix(out)
		if perr != nil {
			t.Fatalf("%v", perr)
		}
		replay(t, s, cmd, steps)

		classes := []string{"fix"}
		copies, deletes := 0, 0
		for _, st := range steps {
			if st.kind == stepCopy {
				copies++
			} else {
				deletes++
			}
		}
		if copies > 0 {
			classes = append(classes, "fix-with-copies")
		}
		if copies > 1 {
			classes = append(classes, "fix-with-several-copies")
		}
		if deletes > 0 {
			classes = append(classes, "fix-with-delete")
		}
		if failed > 0 {
			classes = append(classes, "fix-cannot-place")
		}
		vlib.Case(cmd+" => "+planText(steps)+" @ "+s.String(), hasReplicated(s) && len(steps) > 0, classes...)
	})
}
