package c15

import (
	"fmt"
	"testing"

	"github.com/chrislusf/seaweedfs/weed/shell"

	"verifharness/vlib"
)

// universe: 3 data centers x 3 racks x 2 servers (rack names repeat across data centers)
func universe() (u [][3]string) {
	n := 0
	for d := 1; d <= 3; d++ {
		for r := 1; r <= 3; r++ {
			for k := 0; k < 2; k++ {
				n++
				u = append(u, [3]string{fmt.Sprintf("dc%d", d), fmt.Sprintf("r%d", r), fmt.Sprintf("n%d", n)})
			}
		}
	}
	return
}

func toLocs(set [][3]string) (out []loc) {
	for _, e := range set {
		out = append(out, loc{e[0], e[0] + " " + e[1], e[2]})
	}
	return
}

// subsets calls fn for every k-subset of u (in index order).
func subsets(u [][3]string, k int, fn func(idx []int)) {
	idx := make([]int, k)
	var rec func(pos, start int)
	rec = func(pos, start int) {
		if pos == k {
			fn(idx)
			return
		}
		for i := start; i <= len(u)-(k-pos); i++ {
			idx[pos] = i
			rec(pos+1, i+1)
		}
	}
	rec(0, 0)
}

// every setting, every replica set up to the size limit, every source and
// target: a move isGoodMove accepts never lands on a holder and never breaks a
// satisfied placement.
func TestPropIsGoodMoveExhaustive(t *testing.T) {
	u := universe()
	maxSize := vlib.Pick(4, 6)
	n := 0
	for x := 0; x <= 2; x++ {
		for y := 0; y <= 2; y++ {
			for z := 0; z <= 2; z++ {
				n++
				if !vlib.ShardOwns(n) || x+y+z == 0 { // volume.balance does not call isGoodMove for 000
					continue
				}
				if vlib.Known(keySplitRacks) && x >= 1 && y == 2 && z == 0 {
					vlib.Excluded(keySplitRacks)
					continue
				}
				rp := fmt.Sprintf("%d%d%d", x, y, z)
				accepted, fromSatisfied := 0, 0
				for size := 1; size <= maxSize && size <= 2+x+y+z; size++ {
					subsets(u, size, func(idx []int) {
						set := make([][3]string, size)
						in := map[int]bool{}
						for i, j := range idx {
							set[i] = u[j]
							in[j] = true
						}
						sat := satisfied(x, y, z, toLocs(set))
						for si := range set {
							for ti, target := range u {
								if !shell.VerifIsGoodMove(rp, set, set[si], target) {
									continue
								}
								accepted++
								if in[ti] {
									t.Fatalf("isGoodMove(%s, %v, source %v, target %v) accepts a move onto a server that holds a replica", rp, set, set[si], target)
								}
								if sat {
									fromSatisfied++
									after := append([][3]string{}, set...)
									after[si] = target
									if !satisfied(x, y, z, toLocs(after)) {
										t.Fatalf("isGoodMove(%s, %v, source %v, target %v) accepts a move that turns a satisfied placement into %v", rp, set, set[si], target, after)
									}
								}
							}
						}
					})
				}
				vlib.Case(fmt.Sprintf("isGoodMove exhaustive rp=%s sizes<=%d: %d accepted moves, %d from satisfied sets", rp, maxSize, accepted, fromSatisfied), fromSatisfied > 0, "exhaustive-isGoodMove")
			}
		}
	}
	vlib.Exhaustive(fmt.Sprintf("isGoodMove: 26 settings x replica sets of <=%d servers in 3x3x2 universe x source x target", maxSize), true)
}

// every setting, every existing replica set smaller than the copy count, every
// candidate: a location satisfyReplicaPlacement accepts is not a holder and
// keeps the set part of a placement of the setting.
func TestPropSatisfyReplicaPlacementExhaustive(t *testing.T) {
	u := universe()
	maxSize := vlib.Pick(3, 5)
	n := 0
	for x := 0; x <= 2; x++ {
		for y := 0; y <= 2; y++ {
			for z := 0; z <= 2; z++ {
				n++
				if !vlib.ShardOwns(n) {
					continue
				}
				rp := fmt.Sprintf("%d%d%d", x, y, z)
				accepted, placeable, refused := 0, 0, 0
				for size := 1; size <= maxSize && size <= x+y+z; size++ {
					subsets(u, size, func(idx []int) {
						set := make([][3]string, size)
						in := map[int]bool{}
						for i, j := range idx {
							set[i] = u[j]
							in[j] = true
						}
						sub := subPlacement(x, y, z, toLocs(set))
						anyAccepted, anyPossible := false, false
						for ci, cand := range u {
							after := append(append([][3]string{}, set...), cand)
							possible := !in[ci] && subPlacement(x, y, z, toLocs(after))
							if possible {
								anyPossible = true
							}
							if !shell.VerifSatisfyReplicaPlacement(rp, set, cand) {
								continue
							}
							accepted++
							anyAccepted = true
							if in[ci] {
								t.Fatalf("satisfyReplicaPlacement(%s, %v, %v) accepts a server that holds a replica", rp, set, cand)
							}
							if sub && !possible {
								t.Fatalf("satisfyReplicaPlacement(%s, %v, %v) accepts a location that cannot be part of any placement of the setting", rp, set, cand)
							}
						}
						if sub && anyPossible {
							placeable++
							if !anyAccepted {
								refused++
							}
						}
					})
				}
				vlib.Case(fmt.Sprintf("satisfyReplicaPlacement exhaustive rp=%s sizes<=%d: %d accepted, %d placeable sets of which %d got no candidate", rp, maxSize, accepted, placeable, refused), accepted > 0, "exhaustive-satisfyReplicaPlacement")
			}
		}
	}
	vlib.Exhaustive(fmt.Sprintf("satisfyReplicaPlacement: 27 settings x existing sets of <=%d servers in 3x3x2 universe x candidate", maxSize), true)
}
