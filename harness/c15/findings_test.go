package c15

import (
	"fmt"
	"strings"
	"testing"

	"github.com/chrislusf/seaweedfs/weed/shell"
	"pgregory.net/rapid"

	"verifharness/vlib"
)

// Listed findings (see /verif/known_findings.d/C15.txt). While a key is listed
// as "known" the generators leave out exactly the input class that triggers it.
const (
	keyFreeCapacity    = "C15-move-ignores-free-capacity"       // volume.balance / volumeServer.evacuate never look at the target's free slots
	keyExistingReplica = "C15-move-onto-existing-replica"       // setting 000: move onto a server holding a replica of another writability class
	keyFixCapacity     = "C15-fixrepl-capacity-not-updated"     // fix.replication never counts the copies it already planned
	keySplitRacks      = "C15-isgoodmove-splits-racks-over-dcs" // isGoodMove counts racks over all data centers (120 -> 2+2)
)

func (s *snapshot) counts() []map[string]int {
	c := make([]map[string]int, len(s.servers))
	for i := range c {
		c[i] = map[string]int{}
	}
	for _, v := range s.vols {
		for _, r := range v.replicas {
			c[r.srv][v.disk]++
		}
	}
	return c
}

// applyKnownBalance: with keyFreeCapacity listed, every server that takes part
// in balancing a disk type (max > 0) gets enough room for every volume of that
// disk type, so that no move can hit a full server.
func applyKnownBalance(t *rapid.T, s *snapshot) {
	if !vlib.Known(keyFreeCapacity) {
		return
	}
	vlib.Excluded(keyFreeCapacity)
	total := map[string]int{}
	for _, v := range s.vols {
		total[v.disk]++
	}
	c := s.counts()
	for i := range s.servers {
		for d, mx := range s.servers[i].max {
			if mx > 0 && mx < c[i][d]+total[d] {
				s.servers[i].max[d] = c[i][d] + total[d]
			}
		}
	}
}

// applyKnownEvacuate: with keyFreeCapacity listed, every other server has the
// disk types of the evacuated volumes with room for all of them.
func applyKnownEvacuate(t *rapid.T, s *snapshot, target int) {
	if !vlib.Known(keyFreeCapacity) {
		return
	}
	vlib.Excluded(keyFreeCapacity)
	need := map[string]int{}
	for _, v := range s.vols {
		for _, r := range v.replicas {
			if r.srv == target {
				need[v.disk]++
			}
		}
	}
	c := s.counts()
	for i := range s.servers {
		if i == target {
			continue
		}
		for d, n := range need {
			if s.servers[i].max[d] < c[i][d]+n {
				s.servers[i].max[d] = c[i][d] + n
			}
		}
	}
}

// applyKnownFix: with keyFixCapacity listed, a server that has a free slot has
// one for every under-replicated volume of that disk type.
func applyKnownFix(t *rapid.T, s *snapshot) {
	if !vlib.Known(keyFixCapacity) {
		return
	}
	vlib.Excluded(keyFixCapacity)
	under := map[string]int{}
	for _, v := range s.vols {
		if len(v.replicas) < v.copies() {
			under[v.disk]++
		}
	}
	c := s.counts()
	for i := range s.servers {
		for d, mx := range s.servers[i].max {
			if free := mx - c[i][d]; free > 0 && free < under[d] {
				s.servers[i].max[d] = c[i][d] + under[d]
			}
		}
	}
}

// ------------------------------------------------------------------ probes

func vol(id uint32, rp string, coll, disk string, reps ...replica) volume {
	v := volume{id: id, x: int(rp[0] - '0'), y: int(rp[1] - '0'), z: int(rp[2] - '0'), coll: coll, disk: disk}
	for j, r := range reps {
		if r.size == 0 {
			r.size = uint64(10*int(id) + j)
		}
		r.modified = 1
		v.replicas = append(v.replicas, r)
	}
	return v
}

func srv(dc, rack, id string, hddMax int) server {
	return server{dc: dc, rack: rack, id: id, max: map[string]int{"": hddMax}}
}

// firstBreach replays a plan and returns the first breach message ("" if none).
func firstBreach(s *snapshot, steps []step) string {
	m := newModel(s)
	for _, st := range steps {
		if msg := m.apply(st); msg != "" {
			return msg
		}
	}
	return ""
}

func probe(fn func() string) (msg string) {
	defer func() {
		if r := recover(); r != nil {
			msg = fmt.Sprintf("panic: %v", r)
		}
	}()
	return fn()
}

func TestFindingFreeCapacity(t *testing.T) {
	// volume.balance -collection=a: s2 is full of volumes of another collection
	bal := &snapshot{
		servers: []server{srv("dc1", "r1", "s1:8080", 4), srv("dc1", "r1", "s2:8080", 4)},
		vols: []volume{
			vol(1, "000", "a", "", replica{srv: 0}), vol(2, "000", "a", "", replica{srv: 0}), vol(3, "000", "a", "", replica{srv: 0}),
			vol(4, "000", "", "", replica{srv: 1}), vol(5, "000", "", "", replica{srv: 1}), vol(6, "000", "", "", replica{srv: 1}), vol(7, "000", "", "", replica{srv: 1}),
		},
	}
	msg1 := probe(func() string {
		out, _ := shell.VerifVolumeBalance(bal.topology(), sizeLimit, "", "a", nil, false)
		steps, _ := parseMoves(out)
		return firstBreach(bal, steps)
	})
	// volumeServer.evacuate: the only other server has no slot at all
	ev := &snapshot{
		servers: []server{srv("dc1", "r1", "s1:8080", 1), srv("dc1", "r2", "s2:8080", 0)},
		vols:    []volume{vol(1, "000", "", "", replica{srv: 0})},
	}
	msg2 := probe(func() string {
		out, _, _ := shell.VerifEvacuateNormalVolumes(ev.topology(), "s1:8080", true)
		steps, _ := parseMoves(out)
		return firstBreach(ev, steps)
	})
	rep := strings.HasPrefix(msg1, "NO-FREE-CAPACITY") || strings.HasPrefix(msg2, "NO-FREE-CAPACITY")
	vlib.Finding(t, keyFreeCapacity, rep, fmt.Sprintf("balance -collection=a on {%s}: %q; evacuate s1 on {%s}: %q", bal, msg1, ev, msg2))
}

func TestFindingExistingReplica(t *testing.T) {
	s := &snapshot{
		servers: []server{srv("dc1", "r1", "s1:8080", 10), srv("dc1", "r1", "s2:8080", 2)},
		vols: []volume{
			vol(1, "000", "", "", replica{srv: 0}, replica{srv: 1, readOnly: true}),
			vol(2, "000", "", "", replica{srv: 1, readOnly: true}),
		},
	}
	msg := probe(func() string {
		out, _ := shell.VerifVolumeBalance(s.topology(), sizeLimit, "", "ALL_COLLECTIONS", nil, false)
		steps, _ := parseMoves(out)
		return firstBreach(s, steps)
	})
	vlib.Finding(t, keyExistingReplica, strings.HasPrefix(msg, "TWO-REPLICAS-ON-ONE-SERVER"), fmt.Sprintf("balance ALL_COLLECTIONS on {%s}: %q", s, msg))
}

func TestFindingFixCapacity(t *testing.T) {
	s := &snapshot{
		servers: []server{srv("dc1", "r1", "s1:8080", 5), srv("dc1", "r1", "s2:8080", 1)},
		vols: []volume{
			vol(1, "001", "", "", replica{srv: 0}),
			vol(2, "001", "", "", replica{srv: 0}),
		},
	}
	msg := probe(func() string {
		out, _ := shell.VerifFixReplication(s.topology(), "", []uint32{1, 2})
		steps, _, _ := parseFix(out)
		return firstBreach(s, steps)
	})
	vlib.Finding(t, keyFixCapacity, strings.HasPrefix(msg, "NO-FREE-CAPACITY"), fmt.Sprintf("fix.replication -n on {%s}: %q", s, msg))
}

func TestFindingSplitRacks(t *testing.T) {
	// direct: 120 on dc1:{r1,r2,r3}+dc2:{r1}; moving the dc1/r3 replica to dc2/r2 gives 2+2 racks
	existing := [][3]string{{"dc1", "r1", "a"}, {"dc1", "r2", "b"}, {"dc1", "r3", "c"}, {"dc2", "r1", "d"}}
	direct := shell.VerifIsGoodMove("120", existing, [3]string{"dc1", "r3", "c"}, [3]string{"dc2", "r2", "e"})
	// through the planner: evacuating s3 can only go to s5
	s := &snapshot{
		servers: []server{srv("dc1", "r1", "s1:8080", 1), srv("dc1", "r2", "s2:8080", 1), srv("dc1", "r3", "s3:8080", 1), srv("dc2", "r1", "s4:8080", 1), srv("dc2", "r2", "s5:8080", 1)},
		vols:    []volume{vol(1, "120", "", "", replica{srv: 0}, replica{srv: 1}, replica{srv: 2}, replica{srv: 3})},
	}
	msg := probe(func() string {
		out, _, _ := shell.VerifEvacuateNormalVolumes(s.topology(), "s3:8080", true)
		steps, _ := parseMoves(out)
		return firstBreach(s, steps)
	})
	vlib.Finding(t, keySplitRacks, direct || strings.HasPrefix(msg, "PLACEMENT-BROKEN"), fmt.Sprintf("isGoodMove(120, dc1:{r1,r2,r3}+dc2:{r1}, dc1/r3 -> dc2/r2) = %v; evacuate s3 on {%s}: %q", direct, s, msg))
}
