package c15

import (
	"fmt"
	"sort"
	"strings"

	"github.com/chrislusf/seaweedfs/weed/pb/master_pb"
	"pgregory.net/rapid"

	"verifharness/vlib"
)

// ------------------------------------------------------------------ snapshot

const sizeLimit = 1000 // "volumeSizeLimit" handed to volume.balance (bytes)

type server struct {
	dc, rack, id string
	max          map[string]int // disk type ("" = hdd, "ssd") -> max volume count
}

type replica struct {
	srv      int
	readOnly bool
	size     uint64
	modified int64
	compact  uint32
}

type volume struct {
	id       uint32
	x, y, z  int
	coll     string
	disk     string
	replicas []replica
}

func (v *volume) rp() string  { return fmt.Sprintf("%d%d%d", v.x, v.y, v.z) }
func (v *volume) copies() int { return 1 + v.x + v.y + v.z }

type snapshot struct {
	servers []server
	vols    []volume
}

func diskName(d string) string {
	if d == "" {
		return "hdd"
	}
	return d
}

func (s *snapshot) String() string {
	var b strings.Builder
	for i, sv := range s.servers {
		if i > 0 {
			b.WriteString(" ")
		}
		fmt.Fprintf(&b, "%s/%s/%s[", sv.dc, sv.rack, sv.id)
		var ds []string
		for d := range sv.max {
			ds = append(ds, d)
		}
		sort.Strings(ds)
		for j, d := range ds {
			if j > 0 {
				b.WriteString(",")
			}
			fmt.Fprintf(&b, "%s:max%d", diskName(d), sv.max[d])
		}
		b.WriteString("]")
	}
	b.WriteString(" |")
	for _, v := range s.vols {
		fmt.Fprintf(&b, " v%d(rp%s,c=%q,%s:", v.id, v.rp(), v.coll, diskName(v.disk))
		for j, r := range v.replicas {
			if j > 0 {
				b.WriteString(",")
			}
			b.WriteString(s.servers[r.srv].id)
			if r.readOnly {
				b.WriteString("/ro")
			}
			if r.size >= sizeLimit {
				b.WriteString("/full")
			}
			fmt.Fprintf(&b, "/m%d", r.modified)
		}
		b.WriteString(")")
	}
	return b.String()
}

// topology builds a fresh master_pb.TopologyInfo (the planners may modify it).
func (s *snapshot) topology() *master_pb.TopologyInfo {
	topo := &master_pb.TopologyInfo{Id: "topo"}
	dcs := map[string]*master_pb.DataCenterInfo{}
	racks := map[string]*master_pb.RackInfo{}
	nodes := make([]*master_pb.DataNodeInfo, len(s.servers))
	for i, sv := range s.servers {
		dc := dcs[sv.dc]
		if dc == nil {
			dc = &master_pb.DataCenterInfo{Id: sv.dc}
			dcs[sv.dc] = dc
			topo.DataCenterInfos = append(topo.DataCenterInfos, dc)
		}
		rk := racks[sv.dc+" "+sv.rack]
		if rk == nil {
			rk = &master_pb.RackInfo{Id: sv.rack}
			racks[sv.dc+" "+sv.rack] = rk
			dc.RackInfos = append(dc.RackInfos, rk)
		}
		dn := &master_pb.DataNodeInfo{Id: sv.id, DiskInfos: map[string]*master_pb.DiskInfo{}}
		for d, m := range sv.max {
			dn.DiskInfos[d] = &master_pb.DiskInfo{Type: d, MaxVolumeCount: uint64(m)}
		}
		rk.DataNodeInfos = append(rk.DataNodeInfos, dn)
		nodes[i] = dn
	}
	for _, v := range s.vols {
		for _, r := range v.replicas {
			di := nodes[r.srv].DiskInfos[v.disk]
			di.VolumeInfos = append(di.VolumeInfos, &master_pb.VolumeInformationMessage{
				Id: v.id, Size: r.size, Collection: v.coll, ReadOnly: r.readOnly, FileCount: 10,
				ReplicaPlacement: uint32(v.x*100 + v.y*10 + v.z), Version: 3,
				CompactRevision: r.compact, ModifiedAtSecond: r.modified, DiskType: v.disk,
			})
		}
	}
	for _, dn := range nodes {
		for _, di := range dn.DiskInfos {
			di.VolumeCount = uint64(len(di.VolumeInfos))
			di.FreeVolumeCount = di.MaxVolumeCount - di.VolumeCount
			for _, v := range di.VolumeInfos {
				if !v.ReadOnly {
					di.ActiveVolumeCount++
				}
			}
		}
	}
	return topo
}

// ------------------------------------------------------------------ placement predicates
// Written from the documented meaning of the replication setting xyz
// (x replicas on other data centers, y on other racks of the same data
// center, z on other servers of the same rack), not from the shell code.

type loc struct{ dc, rack, id string } // rack is qualified by dc by the caller

func distinctServers(locs []loc) bool {
	seen := map[string]bool{}
	for _, l := range locs {
		if seen[l.id] {
			return false
		}
		seen[l.id] = true
	}
	return true
}

func groupDC(locs []loc) map[string][]loc {
	m := map[string][]loc{}
	for _, l := range locs {
		m[l.dc] = append(m[l.dc], l)
	}
	return m
}

func groupRack(locs []loc) map[string]int {
	m := map[string]int{}
	for _, l := range locs {
		m[l.rack]++
	}
	return m
}

// satisfied: the replica set is exactly a placement of xyz.
func satisfied(x, y, z int, locs []loc) bool {
	if len(locs) != 1+x+y+z || !distinctServers(locs) {
		return false
	}
	byDC := groupDC(locs)
	if len(byDC) != x+1 {
		return false
	}
	for main, inMain := range byDC {
		ok := true
		for d, l := range byDC {
			if d != main && len(l) != 1 {
				ok = false
			}
		}
		if !ok {
			continue
		}
		byRack := groupRack(inMain)
		if len(byRack) != y+1 {
			continue
		}
		for mainRack, n := range byRack {
			if n != z+1 {
				continue
			}
			good := true
			for r, c := range byRack {
				if r != mainRack && c != 1 {
					good = false
				}
			}
			if good {
				return true
			}
		}
	}
	return false
}

// subPlacement: the replica set can be completed to a placement of xyz by
// adding replicas on (possibly new) servers, i.e. it uses no more data
// centers, racks or same-rack servers than the setting allows.
func subPlacement(x, y, z int, locs []loc) bool {
	if len(locs) == 0 {
		return true
	}
	if len(locs) > 1+x+y+z || !distinctServers(locs) {
		return false
	}
	byDC := groupDC(locs)
	mains := []string{"\x00fresh"}
	for d := range byDC {
		mains = append(mains, d)
	}
	for _, main := range mains {
		others := 0
		ok := true
		for d, l := range byDC {
			if d == main {
				continue
			}
			others++
			if len(l) != 1 {
				ok = false
			}
		}
		if !ok || others > x {
			continue
		}
		byRack := groupRack(byDC[main])
		mainRacks := []string{"\x00fresh"}
		for r := range byRack {
			mainRacks = append(mainRacks, r)
		}
		for _, mr := range mainRacks {
			otherRacks := 0
			good := byRack[mr] <= z+1
			for r, c := range byRack {
				if r == mr {
					continue
				}
				otherRacks++
				if c != 1 {
					good = false
				}
			}
			if good && otherRacks <= y {
				return true
			}
		}
	}
	return false
}

// ------------------------------------------------------------------ model the plan is replayed on

type model struct {
	s     *snapshot
	idx   map[string]int
	holds []map[uint32]bool // server -> volume ids held
	count []map[string]int  // server -> disk type -> volumes on it
	vols  map[uint32]*volume
}

func newModel(s *snapshot) *model {
	m := &model{s: s, idx: map[string]int{}, vols: map[uint32]*volume{}}
	for i, sv := range s.servers {
		m.idx[sv.id] = i
		m.holds = append(m.holds, map[uint32]bool{})
		m.count = append(m.count, map[string]int{})
	}
	for i := range s.vols {
		v := &s.vols[i]
		m.vols[v.id] = v
		for _, r := range v.replicas {
			m.holds[r.srv][v.id] = true
			m.count[r.srv][v.disk]++
		}
	}
	return m
}

func (m *model) locs(vid uint32) (out []loc) {
	for i, h := range m.holds {
		if h[vid] {
			sv := m.s.servers[i]
			out = append(out, loc{sv.dc, sv.dc + " " + sv.rack, sv.id})
		}
	}
	return
}

func (m *model) free(srv int, disk string) int {
	mx, ok := m.s.servers[srv].max[disk]
	if !ok {
		return 0
	}
	return mx - m.count[srv][disk]
}

func (m *model) isSatisfied(vid uint32) bool {
	v := m.vols[vid]
	return satisfied(v.x, v.y, v.z, m.locs(vid))
}

// step kinds
const (
	stepMove = iota
	stepCopy
	stepDelete
)

type step struct {
	kind     int
	vid      uint32
	src, dst string
	line     string
}

// apply checks one planned step against the four clauses of the property and
// then performs it on the model. It returns "" or a description of the breach.
func (m *model) apply(st step) string {
	v := m.vols[st.vid]
	if v == nil {
		return fmt.Sprintf("step %q names unknown volume %d", st.line, st.vid)
	}
	wasSatisfied := m.isSatisfied(st.vid)
	before := m.locs(st.vid)
	var si, di int
	var ok bool
	if st.kind != stepDelete || st.src != "" {
		if si, ok = m.idx[st.src]; !ok {
			return fmt.Sprintf("step %q names unknown server %q", st.line, st.src)
		}
		if !m.holds[si][st.vid] {
			return fmt.Sprintf("step %q: source %s does not hold volume %d", st.line, st.src, st.vid)
		}
	}
	if st.kind != stepDelete {
		if di, ok = m.idx[st.dst]; !ok {
			return fmt.Sprintf("step %q names unknown server %q", st.line, st.dst)
		}
		if m.holds[di][st.vid] {
			return fmt.Sprintf("TWO-REPLICAS-ON-ONE-SERVER: step %q puts volume %d on %s which already holds a replica of it", st.line, st.vid, st.dst)
		}
		if f := m.free(di, v.disk); f <= 0 {
			return fmt.Sprintf("NO-FREE-CAPACITY: step %q targets %s which has %d free %s slots (max %d, holding %d) at that moment", st.line, st.dst, f, diskName(v.disk), m.s.servers[di].max[v.disk], m.count[di][v.disk])
		}
	}
	switch st.kind {
	case stepMove:
		delete(m.holds[si], st.vid)
		m.count[si][v.disk]--
		m.holds[di][st.vid] = true
		m.count[di][v.disk]++
	case stepCopy:
		m.holds[di][st.vid] = true
		m.count[di][v.disk]++
	case stepDelete:
		delete(m.holds[si], st.vid)
		m.count[si][v.disk]--
	}
	after := m.locs(st.vid)
	if wasSatisfied && !satisfied(v.x, v.y, v.z, after) {
		return fmt.Sprintf("PLACEMENT-BROKEN: step %q turns volume %d (replication %s) from %v, which satisfied the setting, into %v, which does not", st.line, st.vid, v.rp(), before, after)
	}
	if st.kind == stepCopy {
		if len(after) > v.copies() {
			return fmt.Sprintf("COPY-OVER-REPLICATES: step %q gives volume %d (replication %s) %d replicas", st.line, st.vid, v.rp(), len(after))
		}
		if subPlacement(v.x, v.y, v.z, before) && !subPlacement(v.x, v.y, v.z, after) {
			return fmt.Sprintf("COPY-BREAKS-SETTING: step %q: volume %d (replication %s) replicas %v + %s is not part of any placement of the setting", st.line, st.vid, v.rp(), before, st.dst)
		}
	}
	return ""
}

// ------------------------------------------------------------------ generator

type genOpts struct {
	wantUnder   int  // weight (out of 20) of thinned-out replica sets
	wantOver    int  // weight (out of 20) of over-filled replica sets
	concentrate bool // most volumes share collection / disk type / writability and sit on few servers (gives volume.balance something to do)
	minVol      int
	// hotspot: a small hdd-only cluster where one or two servers in different racks hold the first replica of
	// nearly every volume, many volumes are replicated with few copies, and the other servers are nearly empty
	// with room to spare: volume.balance then plans long sequences of moves from the hot servers, in which later
	// moves concern volumes whose sibling replicas sit on the source of an earlier move.
	hotspot bool
}

func genMax(t *rapid.T, label string) int {
	if rapid.IntRange(0, 5).Draw(t, label+"Zero") == 0 {
		return 0
	}
	return rapid.IntRange(1, 10).Draw(t, label)
}

func feasible(servers []server, x, y, z int) bool {
	// is there, structurally, a placement of xyz in this topology?
	type rk struct{ n int }
	dcs := map[string]map[string]int{}
	for _, sv := range servers {
		if dcs[sv.dc] == nil {
			dcs[sv.dc] = map[string]int{}
		}
		dcs[sv.dc][sv.rack]++
	}
	if len(dcs) < x+1 {
		return false
	}
	for _, racks := range dcs {
		if len(racks) < y+1 {
			continue
		}
		for _, n := range racks {
			if n >= z+1 {
				return true
			}
		}
	}
	return false
}

func genSnapshot(t *rapid.T, o genOpts) *snapshot {
	s := &snapshot{}
	nDC := rapid.IntRange(1, 3).Draw(t, "nDC")
	if o.hotspot {
		nDC = rapid.IntRange(1, 2).Draw(t, "nDCHotspot")
	}
	n := 0
	for d := 1; d <= nDC; d++ {
		nRack := rapid.IntRange(1, 3).Draw(t, "nRack")
		if o.hotspot {
			nRack = rapid.IntRange(2, 3).Draw(t, "nRackHotspot")
		}
		for r := 1; r <= nRack; r++ {
			nSrv := rapid.IntRange(1, 4).Draw(t, "nSrv")
			if o.hotspot && nSrv > 2 {
				nSrv = 2
			}
			for k := 0; k < nSrv; k++ {
				n++
				sv := server{dc: fmt.Sprintf("dc%d", d), rack: fmt.Sprintf("r%d", r), id: fmt.Sprintf("s%d:8080", n), max: map[string]int{}}
				if o.hotspot {
					sv.max[""] = rapid.IntRange(6, 16).Draw(t, "maxHotspot")
					s.servers = append(s.servers, sv)
					continue
				}
				switch rapid.IntRange(0, 5).Draw(t, "disks") {
				case 0:
					sv.max["ssd"] = genMax(t, "maxSsd")
				case 1, 2:
					sv.max[""] = genMax(t, "maxHdd")
					sv.max["ssd"] = genMax(t, "maxSsd")
				default:
					sv.max[""] = genMax(t, "maxHdd")
				}
				s.servers = append(s.servers, sv)
			}
		}
	}
	var feas [][3]int
	for x := 0; x <= 2; x++ {
		for y := 0; y <= 2; y++ {
			for z := 0; z <= 2; z++ {
				if feasible(s.servers, x, y, z) {
					feas = append(feas, [3]int{x, y, z})
				}
			}
		}
	}
	count := make([]map[string]int, len(s.servers))
	for i := range count {
		count[i] = map[string]int{}
	}
	nVol := rapid.IntRange(o.minVol, 25).Draw(t, "nVol")
	domColl := rapid.SampledFrom([]string{"", "a", "b"}).Draw(t, "dominantCollection")
	domSsd := rapid.IntRange(0, 3).Draw(t, "dominantSsd") == 0
	domRO := rapid.IntRange(0, 2).Draw(t, "dominantReadOnly") == 0
	hot := rapid.IntRange(1, 3).Draw(t, "hotServers")
	hotSet := map[int]bool{}
	var fewCopies [][3]int
	if o.hotspot {
		domSsd = false
		if nVol < 10 {
			nVol = 10 + nVol
		}
		// the hot servers: one, or two in different racks, with room for everything
		a := rapid.IntRange(0, len(s.servers)-1).Draw(t, "hotA")
		hotSet[a] = true
		if rapid.IntRange(0, 3).Draw(t, "twoHot") > 0 {
			var other []int
			for i, sv := range s.servers {
				if sv.dc != s.servers[a].dc || sv.rack != s.servers[a].rack {
					other = append(other, i)
				}
			}
			if len(other) > 0 {
				hotSet[other[rapid.IntRange(0, len(other)-1).Draw(t, "hotC")]] = true
			}
		}
		for i := range s.servers {
			if hotSet[i] {
				s.servers[i].max[""] = 1000 // room for everything while placing; cut down to the load + slack below
			}
		}
		for _, p := range feas {
			if c := p[0] + p[1] + p[2]; c == 1 || c == 2 && rapid.IntRange(0, 3).Draw(t, "threeCopies") == 0 {
				fewCopies = append(fewCopies, p)
			}
		}
	}
	for i := 1; i <= nVol; i++ {
		v := volume{id: uint32(i)}
		dominant := o.concentrate && rapid.IntRange(0, 9).Draw(t, "dominant") < 8
		if o.hotspot {
			dominant = rapid.IntRange(0, 19).Draw(t, "dominant") > 0
		}
		if o.hotspot && len(fewCopies) > 0 && rapid.IntRange(0, 19).Draw(t, "hotspotRp") < 18 {
			if rapid.IntRange(0, 9).Draw(t, "hotspotReplicated") < 6 {
				p := rapid.SampledFrom(fewCopies).Draw(t, "rpFew")
				v.x, v.y, v.z = p[0], p[1], p[2]
			}
		} else if rapid.IntRange(0, 9).Draw(t, "rpFeasible") < 7 {
			p := rapid.SampledFrom(feas).Draw(t, "rp")
			v.x, v.y, v.z = p[0], p[1], p[2]
		} else {
			v.x, v.y, v.z = rapid.IntRange(0, 2).Draw(t, "x"), rapid.IntRange(0, 2).Draw(t, "y"), rapid.IntRange(0, 2).Draw(t, "z")
		}
		if vlib.Known(keySplitRacks) && v.x >= 1 && v.y == 2 && v.z == 0 {
			// listed finding: isGoodMove accepts 2+2 racks for x20; such settings are left out
			vlib.Excluded(keySplitRacks)
			v.y = 1
		}
		var readOnly, full bool
		if dominant {
			v.coll = domColl
			if domSsd {
				v.disk = "ssd"
			}
			readOnly = domRO
		} else {
			v.coll = rapid.SampledFrom([]string{"", "a", "b"}).Draw(t, "coll")
			if rapid.IntRange(0, 3).Draw(t, "ssd") == 0 {
				v.disk = "ssd"
			}
			readOnly = rapid.IntRange(0, 4).Draw(t, "readOnly") == 0
			full = rapid.IntRange(0, 5).Draw(t, "full") == 0
		}
		eligible := func(i int) bool {
			mx, ok := s.servers[i].max[v.disk]
			return ok && count[i][v.disk] < mx
		}
		used := map[int]bool{}
		var chosen []int
		pick := func(cands []int, label string) int {
			var c []int
			for _, i := range cands {
				if eligible(i) && !used[i] {
					c = append(c, i)
				}
			}
			if len(c) == 0 {
				return -1
			}
			hi := len(c) - 1
			if o.hotspot && dominant && label == "main" {
				var h []int
				for _, i := range c {
					if hotSet[i] {
						h = append(h, i)
					}
				}
				if len(h) > 0 {
					c, hi = h, len(h)-1
				}
			} else if o.hotspot && dominant && len(hotSet) > 1 && rapid.Bool().Draw(t, "siblingOnHot") {
				// the sibling replica prefers the other hot server
				var h []int
				for _, i := range c {
					if hotSet[i] {
						h = append(h, i)
					}
				}
				if len(h) > 0 {
					c, hi = h, len(h)-1
				}
			} else if dominant && label == "main" && hi >= hot {
				hi = hot - 1 // the first replica of most volumes lands on one of a few servers
			}
			i := c[rapid.IntRange(0, hi).Draw(t, label)]
			used[i] = true
			chosen = append(chosen, i)
			return i
		}
		all := make([]int, len(s.servers))
		for i := range all {
			all[i] = i
		}
		inDC := func(dc string, notRacks map[string]bool) (out []int) {
			for i, sv := range s.servers {
				if sv.dc == dc && !notRacks[sv.rack] {
					out = append(out, i)
				}
			}
			return
		}
		// a placement of xyz built from the definition, as far as capacity allows
		build := func() {
			first := pick(all, "main")
			if first < 0 {
				return
			}
			main := s.servers[first]
			sameRack := []int{}
			for i, sv := range s.servers {
				if sv.dc == main.dc && sv.rack == main.rack {
					sameRack = append(sameRack, i)
				}
			}
			for k := 0; k < v.z; k++ {
				pick(sameRack, "sameRack")
			}
			usedRacks := map[string]bool{main.rack: true}
			for k := 0; k < v.y; k++ {
				if i := pick(inDC(main.dc, usedRacks), "otherRack"); i >= 0 {
					usedRacks[s.servers[i].rack] = true
				}
			}
			usedDCs := map[string]bool{main.dc: true}
			for k := 0; k < v.x; k++ {
				var c []int
				for i, sv := range s.servers {
					if !usedDCs[sv.dc] {
						c = append(c, i)
					}
				}
				if i := pick(c, "otherDC"); i >= 0 {
					usedDCs[s.servers[i].dc] = true
				}
			}
		}
		mode := rapid.IntRange(0, 19).Draw(t, "replicaMode")
		switch {
		case mode < o.wantUnder:
			build()
			if len(chosen) > 1 {
				drop := rapid.IntRange(1, len(chosen)-1).Draw(t, "drop")
				for k := 0; k < drop; k++ {
					j := rapid.IntRange(0, len(chosen)-1).Draw(t, "dropWhich")
					chosen = append(chosen[:j], chosen[j+1:]...)
				}
			}
		case mode < o.wantUnder+o.wantOver:
			build()
			extra := rapid.IntRange(1, 2).Draw(t, "extra")
			for k := 0; k < extra; k++ {
				pick(all, "extraReplica")
			}
		case mode < o.wantUnder+o.wantOver+2:
			nr := rapid.IntRange(1, 4).Draw(t, "randomReplicas")
			for k := 0; k < nr; k++ {
				pick(all, "randomReplica")
			}
		default:
			build()
		}
		if len(chosen) == 0 {
			continue
		}
		oddOne := -1
		if len(chosen) > 1 && rapid.IntRange(0, 7).Draw(t, "oddReplica") == 0 {
			oddOne = rapid.IntRange(0, len(chosen)-1).Draw(t, "oddWhich")
			if vlib.Known(keyExistingReplica) && v.x+v.y+v.z == 0 {
				// listed finding: for setting 000 the only guard against moving onto a holder is the
				// selected-volume map, which misses a replica of another writability class
				vlib.Excluded(keyExistingReplica)
				oddOne = -1
			}
		}
		for j, si := range chosen {
			r := replica{srv: si, readOnly: readOnly, size: uint64(10*i + j%4), modified: int64(rapid.IntRange(1, 5).Draw(t, "modified")), compact: uint32(rapid.IntRange(0, 1).Draw(t, "compact"))}
			if full {
				r.size += sizeLimit
			}
			if j == oddOne {
				r.readOnly = !r.readOnly
			}
			count[si][v.disk]++
			v.replicas = append(v.replicas, r)
		}
		s.vols = append(s.vols, v)
	}
	if o.hotspot {
		// the hot servers are (nearly) full, which is what makes them the balancer's sources
		for i := range s.servers {
			if hotSet[i] {
				s.servers[i].max[""] = count[i][""] + rapid.IntRange(0, 4).Draw(t, "hotSlack")
				if s.servers[i].max[""] == 0 {
					s.servers[i].max[""] = 1
				}
			}
		}
	}
	return s
}
