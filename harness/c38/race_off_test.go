//go:build !race
// +build !race

package c38

const raceEnabled = false
