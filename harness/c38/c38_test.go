// C38 Concurrent volume operations are linearizable per file id.
//
// Generated concurrent programs (goroutines x operations over 3 keys) run
// against one volume of a real storage.Store in a scratch directory, through
// Store.WriteVolumeNeedle (immediate and batched/fsync path), DeleteVolumeNeedle
// and ReadVolumeNeedle, optionally with a compaction (CompactVolume +
// CommitCompactVolume) in a further goroutine. Every call and return takes a
// timestamp from one atomic counter; the history, extended by three sequential
// read-backs (live store, scan of the .dat file, store reopened from disk), is
// checked with porcupine against a per-key register model.
//
// Besides 4 ordinary payloads of pairwise distinct lengths every key has a
// group of 3 "checksum twins": distinct payloads of one length whose needle
// checksum (CRC32-C as needle.NewCRC computes it) is equal. The model tells
// payloads apart by content only, so an overwrite of a live twin with another
// member of its group must be stored like any other overwrite.
package c38

import (
	"bytes"
	"encoding/binary"
	"fmt"
	"os"
	"runtime"
	"sort"
	"strings"
	"sync"
	"sync/atomic"
	"testing"

	"github.com/anishathalye/porcupine"
	"pgregory.net/rapid"

	"github.com/chrislusf/seaweedfs/weed/storage"
	"github.com/chrislusf/seaweedfs/weed/storage/needle"
	"github.com/chrislusf/seaweedfs/weed/storage/super_block"
	"github.com/chrislusf/seaweedfs/weed/storage/types"
	"github.com/chrislusf/seaweedfs/weed/util"

	"verifharness/vlib"
)

func TestMain(m *testing.M) {
	vlib.Rule("C38: a generated program = optional sequential prelude, then 2-6 goroutines x 3-10 operations over 3 keys started together: write(key, one of 4 ordinary payloads per key with pairwise distinct lengths 1B-64KB or (10/25/25/60% of the writes, drawn per program) one of the key's 3 checksum twins = distinct payloads of one length (12B-64KB, drawn per key) with equal needle checksum CRC32-C, found once per process by a deterministic birthday search over counter-made 12-byte strings and extended by a common prefix; all uploads carry the same (empty) name/mime/pairs and no TTL, so a twin written over a live twin differs from the stored blob in content only; right cookie or (10%) a wrong one, immediate or batched fsync path), delete(key), read(key), optional Gosched between operations; in ~40% of the programs a further goroutine runs 1-2 CompactVolume+CommitCompactVolume rounds; needle map kind in-memory (75%) or LevelDB. The recorded history plus three final sequential read-backs (live store, .dat scan, reopened store) is checked per key with porcupine. Non-trivial = two different goroutines touch the same key, one with a (right-cookie) write and one with a delete. Class overwrite-with-checksum-twin = the history contains a completed right-cookie twin upload answered 'stored' that began after another completed right-cookie twin upload of the key, with no delete and no other kind of upload of that key anywhere in between (so it replaced a live blob of equal length, cookie and checksum). TestPropChecksumTwinSequentialExhaustive runs the same runner and oracle on sequential programs (no goroutines): for every ordered pair of twins, both needle map kinds and all 4 combinations of immediate/batched path: upload A, upload twin B, read, upload B again (must be 'unchanged'), read, rotating the pairs over the 3 keys; those cases count as non-trivial when the class above was observed. The goroutine interleaving is owned by the Go scheduler: this is stress, not schedule enumeration; cases are distinct by program text, a failing schedule is not replayable and therefore the complete history is printed on failure.")
	vlib.Assume("C38: sequential specification per key: a write with the stored cookie (or to a never written key) succeeds and reports 'unchanged' exactly when cookie and payload bytes equal the live blob (payloads are identified by content, never by length or checksum); a write with another cookie fails while the blob is live and may go either way after a delete (the statement does not decide it); delete returns the stored size of the live blob or 0; read returns the live blob and its cookie, or not-found/deleted. Compaction is a no-op of the model. Payloads are never empty (empty blobs have their own listed findings under C01).")
	quietGlog()
	vlib.Main(m)
}

func quietGlog() {
	if os.Getenv("VERIF_GLOG") != "" {
		return
	}
	if f, err := os.OpenFile(os.DevNull, os.O_WRONLY, 0); err == nil {
		os.Stderr = f
	}
}

// ------------------------------------------------------------------ programs

const (
	opWrite = iota
	opDelete
	opRead
)

const (
	nKeys       = 3
	valsPerKey  = 4
	twinsPerKey = 3                  // checksum twins per key (value indices twinBase...)
	twinBase    = nKeys * valsPerKey // first value index of the twins
	nVals       = twinBase + nKeys*twinsPerKey
	twinLen     = 12 // length of the strings the birthday search runs over
	rightCookie = uint32(0x1234abcd)
	wrongCookie = uint32(0x0badc0de)
	vid         = needle.VolumeId(7)
)

var keyIds = [nKeys]uint64{0x11, 0x2222, 0x333333}

type op struct {
	kind   int
	key    int
	val    int // index into the program's payload table (writes)
	cookie uint32
	fsync  bool
	yield  int // Gosched calls before the operation
}

func (o op) String() string {
	switch o.kind {
	case opWrite:
		c, f := "", ""
		if o.cookie != rightCookie {
			c = ",wrongcookie"
		}
		if o.fsync {
			f = ",batched"
		}
		return fmt.Sprintf("W(k%d,%s%s%s)", o.key, valName(o.val), c, f)
	case opDelete:
		return fmt.Sprintf("D(k%d)", o.key)
	}
	return fmt.Sprintf("R(k%d)", o.key)
}

// valName: p<i> is an ordinary payload, t<j> the j-th checksum twin of the key.
func valName(v int) string {
	if v >= twinBase {
		return fmt.Sprintf("t%d", (v-twinBase)%twinsPerKey)
	}
	return fmt.Sprintf("p%d", v)
}

func isTwin(v int) bool { return v >= twinBase }

type program struct {
	kind     storage.NeedleMapKind
	sizes    []int // payload length per value index (pairwise distinct, except that the twins of a key share one length)
	twinPct  int   // percentage of the writes that upload a checksum twin
	prelude  []op
	threads  [][]op
	compacts int // compaction rounds in an extra goroutine (0 = none)
}

func (p *program) String() string {
	var b strings.Builder
	fmt.Fprintf(&b, "nm=%d sizes=%v twinsizes=%v", p.kind, p.sizes[:twinBase], p.twinSizes())
	if len(p.prelude) > 0 {
		fmt.Fprintf(&b, " prelude:%v", p.prelude)
	}
	for i, th := range p.threads {
		fmt.Fprintf(&b, " g%d:%v", i, th)
	}
	if p.compacts > 0 {
		fmt.Fprintf(&b, " compactor:x%d", p.compacts)
	}
	return b.String()
}

func (p *program) twinSizes() []int {
	var s []int
	for k := 0; k < nKeys; k++ {
		s = append(s, p.sizes[twinBase+k*twinsPerKey])
	}
	return s
}

func payload(val, size int) []byte {
	if isTwin(val) {
		return twinPayload((val-twinBase)/twinsPerKey, (val-twinBase)%twinsPerKey, size)
	}
	b := make([]byte, size)
	for i := range b {
		b[i] = byte(val*37 + i*7 + i>>8)
	}
	return b
}

// ------------------------------------------------------------------ checksum twins

var (
	twinOnce  sync.Once
	twinGroup [4][]byte // 4 distinct strings of twinLen bytes with one needle checksum
	twinErr   string
)

// twinCandidate is the i-th string of the deterministic search.
func twinCandidate(i uint64) []byte {
	b := []byte("c38:________")
	binary.BigEndian.PutUint64(b[4:], i*0x9e3779b97f4a7c15)
	return b
}

func xor(a, b []byte) []byte {
	c := make([]byte, len(a))
	for i := range a {
		c[i] = a[i] ^ b[i]
	}
	return c
}

// sameChecksum: what isFileUnchanged compares (needle.CRC) and what is stored in the .dat file (CRC.Value()).
func sameChecksum(a, b []byte) bool {
	ca, cb := needle.NewCRC(a), needle.NewCRC(b)
	return ca == cb && ca.Value() == cb.Value()
}

// twins finds, once per process and without any randomness, two pairs of equal
// length strings with equal needle checksum by enumerating counter-made strings
// (birthday search, ~10^5 candidates). CRC32 is affine over GF(2): with A~B and
// C~D of one length, A, A^(A^B), A^(C^D), A^(A^B)^(C^D) all have one checksum,
// and so have X+A', X+B' for any common prefix X. Every derived payload is
// re-checked with needle.NewCRC before use (checkTwins), nothing is assumed.
func twins() ([4][]byte, string) {
	twinOnce.Do(func() {
		seen := map[uint32]uint64{}
		var base []byte
		var deltas [][]byte
		for i := uint64(1); i < 20000000 && len(deltas) < 2; i++ {
			c := needle.NewCRC(twinCandidate(i)).Value()
			j, ok := seen[c]
			if !ok {
				seen[c] = i
				continue
			}
			a, b := twinCandidate(j), twinCandidate(i)
			d := xor(a, b)
			if bytes.Equal(a, b) || len(deltas) == 1 && bytes.Equal(d, deltas[0]) {
				continue
			}
			if base == nil {
				base = a
			}
			deltas = append(deltas, d)
		}
		if len(deltas) < 2 {
			twinErr = "the deterministic search found no two pairs of 12-byte strings with equal needle checksum"
			return
		}
		twinGroup = [4][]byte{base, xor(base, deltas[0]), xor(base, deltas[1]), xor(xor(base, deltas[0]), deltas[1])}
		for i := range twinGroup {
			for j := 0; j < i; j++ {
				if bytes.Equal(twinGroup[i], twinGroup[j]) || len(twinGroup[i]) != twinLen || !sameChecksum(twinGroup[i], twinGroup[j]) {
					twinErr = fmt.Sprintf("derived strings %x and %x are not distinct checksum twins", twinGroup[j], twinGroup[i])
				}
			}
		}
	})
	return twinGroup, twinErr
}

// twinPayload is twin j of key k at the given length (>= twinLen): a prefix that
// depends on the key only, then the j-th string of the group.
func twinPayload(k, j, size int) []byte {
	g, _ := twins()
	b := make([]byte, size)
	for i := 0; i < size-twinLen; i++ {
		b[i] = byte(k*53 + i*11 + i>>8 + 1)
	}
	copy(b[size-twinLen:], g[j])
	return b
}

// checkTwins re-checks for the payload table of one program that the twins of
// every key are pairwise distinct, of one length and of one needle checksum,
// and that no ordinary payload has the length of a twin.
func (p *program) checkTwins() string {
	if _, e := twins(); e != "" {
		return e
	}
	if len(p.sizes) != nVals {
		return fmt.Sprintf("payload table has %d entries, want %d", len(p.sizes), nVals)
	}
	for k := 0; k < nKeys; k++ {
		v0 := twinBase + k*twinsPerKey
		for v := 0; v < nVals; v++ {
			if (v < v0 || v >= v0+twinsPerKey) && p.sizes[v] == p.sizes[v0] {
				return fmt.Sprintf("payload %d has the length of the twins of k%d", v, k)
			}
		}
		a := payload(v0, p.sizes[v0])
		for j := 1; j < twinsPerKey; j++ {
			b := payload(v0+j, p.sizes[v0+j])
			if len(a) != len(b) || bytes.Equal(a, b) || !sameChecksum(a, b) {
				return fmt.Sprintf("twins t0 and t%d of k%d (%d and %d bytes) are not distinct payloads of one length and one checksum", j, k, len(a), len(b))
			}
			for i := 1; i < j; i++ {
				if bytes.Equal(payload(v0+i, p.sizes[v0+i]), b) {
					return fmt.Sprintf("twins t%d and t%d of k%d are equal", i, j, k)
				}
			}
		}
	}
	return ""
}

func genOp(t *rapid.T, label string, batchedOK bool, twinPct int) op {
	o := op{key: rapid.IntRange(0, nKeys-1).Draw(t, label+".key")}
	switch rapid.IntRange(0, 9).Draw(t, label+".kind") {
	case 0, 1, 2, 3, 4:
		o.kind = opWrite
		if rapid.IntRange(0, 99).Draw(t, label+".twin") < twinPct {
			o.val = twinBase + o.key*twinsPerKey + rapid.IntRange(0, twinsPerKey-1).Draw(t, label+".twinval")
		} else {
			o.val = o.key*valsPerKey + rapid.IntRange(0, valsPerKey-1).Draw(t, label+".val")
		}
		o.cookie = rightCookie
		if rapid.IntRange(0, 9).Draw(t, label+".wrongcookie") == 0 {
			o.cookie = wrongCookie
		}
		o.fsync = batchedOK && rapid.Bool().Draw(t, label+".batched")
	case 5, 6:
		o.kind = opDelete
	default:
		o.kind = opRead
	}
	o.yield = rapid.SampledFrom([]int{0, 0, 0, 1, 2}).Draw(t, label+".yield")
	return o
}

func genProgram(t *rapid.T) *program {
	p := &program{kind: storage.NeedleMapInMemory}
	if rapid.IntRange(0, 3).Draw(t, "leveldb") == 0 {
		p.kind = storage.NeedleMapLevelDb
	}
	// pairwise distinct payload lengths: the size a delete reports identifies the blob
	used := map[int]bool{}
	for v := 0; v < nKeys*valsPerKey; v++ {
		var s int
		if rapid.IntRange(0, 4).Draw(t, fmt.Sprintf("p%d.large", v)) == 0 {
			s = rapid.IntRange(4096, 65536).Draw(t, fmt.Sprintf("p%d.size", v))
		} else {
			s = rapid.IntRange(1, 300).Draw(t, fmt.Sprintf("p%d.size", v))
		}
		for used[s] {
			s++
		}
		used[s] = true
		p.sizes = append(p.sizes, s)
	}
	// the checksum twins of a key share one length, distinct from every other length
	for k := 0; k < nKeys; k++ {
		var s int
		if rapid.IntRange(0, 4).Draw(t, fmt.Sprintf("twin%d.large", k)) == 0 {
			s = rapid.IntRange(4096, 65536).Draw(t, fmt.Sprintf("twin%d.size", k))
		} else {
			s = rapid.IntRange(twinLen, 300).Draw(t, fmt.Sprintf("twin%d.size", k))
		}
		for used[s] {
			s++
		}
		used[s] = true
		for j := 0; j < twinsPerKey; j++ {
			p.sizes = append(p.sizes, s)
		}
	}
	p.twinPct = rapid.SampledFrom([]int{10, 25, 25, 60}).Draw(t, "twinpct")
	for i, n := 0, rapid.IntRange(0, 4).Draw(t, "prelude"); i < n; i++ {
		p.prelude = append(p.prelude, genOp(t, fmt.Sprintf("pre%d", i), true, p.twinPct))
	}
	g := rapid.IntRange(2, 6).Draw(t, "goroutines")
	for i := 0; i < g; i++ {
		var th []op
		for j, n := 0, rapid.IntRange(3, 10).Draw(t, fmt.Sprintf("g%d.ops", i)); j < n; j++ {
			th = append(th, genOp(t, fmt.Sprintf("g%d.%d", i, j), true, p.twinPct))
		}
		p.threads = append(p.threads, th)
	}
	if rapid.IntRange(0, 9).Draw(t, "compactor") < 4 {
		p.compacts = rapid.IntRange(1, 2).Draw(t, "compactions")
	}
	return p
}

func (p *program) nontrivial() bool {
	for k := 0; k < nKeys; k++ {
		for i, a := range p.threads {
			for j, b := range p.threads {
				if i == j {
					continue
				}
				w, d := false, false
				for _, o := range a {
					w = w || o.kind == opWrite && o.key == k && o.cookie == rightCookie
				}
				for _, o := range b {
					d = d || o.kind == opDelete && o.key == k
				}
				if w && d {
					return true
				}
			}
		}
	}
	return false
}

// ------------------------------------------------------------------ model

type kvIn struct {
	kind   int
	key    int
	val    int
	cookie uint32
}

type kvOut struct {
	err       bool   // write rejected
	unchanged bool   // write answered "unchanged"
	size      int    // delete: size reported
	found     bool   // read: blob returned
	val       int    // read: which payload (-1 unknown)
	cookie    uint32 // read: stored cookie
	text      string // raw result, for the printed history
}

// regState is the abstract state of one key.
type regState struct {
	live    bool
	deleted bool // written before, now deleted
	val     int
	cookie  uint32 // cookie of the last stored blob (kept after a delete)
}

func describeState(s regState) string {
	switch {
	case s.live:
		return fmt.Sprintf("live(%s,c=%08x)", valName(s.val), s.cookie)
	case s.deleted:
		return fmt.Sprintf("deleted(c=%08x)", s.cookie)
	}
	return "absent"
}

func step(sizes []int) func(state, input, output interface{}) (bool, interface{}) {
	return func(state, input, output interface{}) (bool, interface{}) {
		s, in, out := state.(regState), input.(kvIn), output.(kvOut)
		switch in.kind {
		case opWrite:
			stored := regState{live: true, val: in.val, cookie: in.cookie}
			switch {
			case s.live && s.cookie != in.cookie:
				return out.err, s
			case s.live:
				if out.err {
					return false, s
				}
				if s.val == in.val {
					return out.unchanged, s
				}
				return !out.unchanged, stored
			case s.deleted && s.cookie != in.cookie:
				// not decided by the statement
				if out.err {
					return true, s
				}
				return !out.unchanged, stored
			default:
				return !out.err && !out.unchanged, stored
			}
		case opDelete:
			if s.live {
				// needle body size of a blob without name/mime/...: data size field + data + flags
				return !out.err && out.size == sizes[s.val]+5, regState{deleted: true, cookie: s.cookie}
			}
			return !out.err && out.size == 0, s
		default:
			if s.live {
				return out.found && out.val == s.val && out.cookie == s.cookie, s
			}
			return !out.found, s
		}
	}
}

func model(sizes []int) porcupine.Model {
	return porcupine.Model{
		Init: func() interface{} { return regState{} },
		Step: step(sizes),
		DescribeOperation: func(in, out interface{}) string {
			return fmt.Sprintf("%v -> %s", in, out.(kvOut).text)
		},
		DescribeState: func(s interface{}) string { return describeState(s.(regState)) },
	}
}

// ------------------------------------------------------------------ execution

type rec struct {
	client    int
	in        kvIn
	out       kvOut
	call, ret int64
	src       string
}

type runner struct {
	t     failer
	p     *program
	dir   string
	store *storage.Store
	clock int64
	mu    sync.Mutex
	hist  []rec
	notes []string
}

type failer interface {
	Fatalf(string, ...any)
}

func newStore(dir string, kind storage.NeedleMapKind) *storage.Store {
	return storage.NewStore(nil, 8080, "localhost", "localhost:8080", []string{dir}, []int{8}, []util.MinFreeSpace{{}}, "", kind, []types.DiskType{types.HardDriveType})
}

func drain(s *storage.Store) {
	for {
		select {
		case <-s.NewVolumesChan:
		case <-s.DeletedVolumesChan:
		default:
			return
		}
	}
}

func (r *runner) tick() int64 { return atomic.AddInt64(&r.clock, 1) }

func (r *runner) record(x rec) {
	r.mu.Lock()
	r.hist = append(r.hist, x)
	r.mu.Unlock()
}

func (r *runner) note(s string) {
	r.mu.Lock()
	r.notes = append(r.notes, s)
	r.mu.Unlock()
}

func readName(v int) string {
	if v < 0 {
		return "p-1"
	}
	return valName(v)
}

// valOf identifies a returned blob by its bytes (twins have one length and one checksum).
func (r *runner) valOf(data []byte) int {
	for v, s := range r.p.sizes {
		if len(data) == s && bytes.Equal(data, payload(v, s)) {
			return v
		}
	}
	return -1
}

// exec runs one operation against the store and returns its record. problem is
// non-empty when the result is outside every sequential behaviour (an error no
// sequential execution returns, or bytes nobody wrote).
func (r *runner) exec(client int, o op, src string) (x rec, problem string) {
	x = rec{client: client, in: kvIn{kind: o.kind, key: o.key, val: o.val, cookie: o.cookie}, src: src}
	for i := 0; i < o.yield; i++ {
		runtime.Gosched()
	}
	switch o.kind {
	case opWrite:
		n := &needle.Needle{Id: types.NeedleId(keyIds[o.key]), Cookie: types.Cookie(o.cookie), Ttl: needle.EMPTY_TTL}
		n.Data = payload(o.val, r.p.sizes[o.val])
		n.Checksum = needle.NewCRC(n.Data)
		x.call = r.tick()
		unchanged, err := r.store.WriteVolumeNeedle(vid, n, o.fsync)
		x.ret = r.tick()
		x.out = kvOut{err: err != nil, unchanged: unchanged}
		switch {
		case err != nil:
			x.out.text = "err(" + err.Error() + ")"
			if !strings.Contains(err.Error(), "mismatching cookie") {
				problem = fmt.Sprintf("%s failed with an error no sequential execution returns: %v", o, err)
			}
		case unchanged:
			x.out.text = "unchanged"
		default:
			x.out.text = "ok"
		}
	case opDelete:
		n := &needle.Needle{Id: types.NeedleId(keyIds[o.key]), Cookie: types.Cookie(rightCookie)}
		x.call = r.tick()
		size, err := r.store.DeleteVolumeNeedle(vid, n)
		x.ret = r.tick()
		x.out = kvOut{err: err != nil, size: int(size), text: fmt.Sprintf("size=%d", size)}
		if err != nil {
			x.out.text = "err(" + err.Error() + ")"
			problem = fmt.Sprintf("%s failed: %v", o, err)
		}
	default:
		n := &needle.Needle{Id: types.NeedleId(keyIds[o.key]), Cookie: types.Cookie(rightCookie)}
		x.call = r.tick()
		count, err := r.store.ReadVolumeNeedle(vid, n, nil)
		x.ret = r.tick()
		switch {
		case err == storage.ErrorNotFound || err == storage.ErrorDeleted:
			x.out = kvOut{text: err.Error()}
		case err != nil:
			x.out = kvOut{text: "err(" + err.Error() + ")"}
			problem = fmt.Sprintf("%s failed with an error no sequential execution returns: %v", o, err)
		default:
			v := r.valOf(n.Data)
			x.out = kvOut{found: true, val: v, cookie: uint32(n.Cookie), text: fmt.Sprintf("%s,c=%08x", readName(v), uint32(n.Cookie))}
			if v < 0 || count != len(n.Data) {
				x.out.text = fmt.Sprintf("%d bytes (count %d) that are none of the payloads", len(n.Data), count)
				problem = fmt.Sprintf("%s returned %s", o, x.out.text)
			}
		}
	}
	return
}

// datScanner replays the records of the .dat file: the last record of a key decides.
type datScanner struct {
	last map[uint64]*needle.Needle
}

func (s *datScanner) VisitSuperBlock(super_block.SuperBlock) error { return nil }
func (s *datScanner) ReadNeedleBody() bool                         { return true }
func (s *datScanner) VisitNeedle(n *needle.Needle, offset int64, h, b []byte) error {
	c := *n
	c.Data = append([]byte{}, n.Data...)
	s.last[uint64(n.Id)] = &c
	return nil
}

func (r *runner) fail(format string, args ...interface{}) {
	r.t.Fatalf("%s\nprogram: %s\n%s", fmt.Sprintf(format, args...), r.p, r.history())
}

func (r *runner) history() string {
	h := append([]rec{}, r.hist...)
	sort.Slice(h, func(i, j int) bool { return h[i].call < h[j].call })
	var b strings.Builder
	b.WriteString("history (key: [call,return] client operation -> result):\n")
	for k := 0; k < nKeys; k++ {
		for _, x := range h {
			if x.in.key != k {
				continue
			}
			o := op{kind: x.in.kind, key: x.in.key, val: x.in.val, cookie: x.in.cookie}
			fmt.Fprintf(&b, "  k%d [%4d,%4d] %-9s %-22s -> %s\n", k, x.call, x.ret, x.src, o, x.out.text)
		}
	}
	for _, n := range r.notes {
		b.WriteString("  note: " + n + "\n")
	}
	return b.String()
}

var (
	sizeOnce sync.Once
	sizeErr  string
)

// sizeAssumption checks once per process, sequentially, what the model assumes
// about the size a delete reports: payload length + 5.
func sizeAssumption() string {
	sizeOnce.Do(func() {
		dir := vlib.TempDir()
		defer os.RemoveAll(dir)
		s := newStore(dir, storage.NeedleMapInMemory)
		defer s.Close()
		if err := s.AddVolume(vid, "", storage.NeedleMapInMemory, "000", "", 0, 0, types.HardDriveType); err != nil {
			sizeErr = err.Error()
			return
		}
		drain(s)
		for _, l := range []int{1, 2, 300, 4096, 65536} {
			n := &needle.Needle{Id: 9, Cookie: 1, Ttl: needle.EMPTY_TTL, Data: payload(1, l)}
			n.Checksum = needle.NewCRC(n.Data)
			if _, err := s.WriteVolumeNeedle(vid, n, false); err != nil {
				sizeErr = err.Error()
				return
			}
			size, err := s.DeleteVolumeNeedle(vid, &needle.Needle{Id: 9, Cookie: 1})
			if err != nil || int(size) != l+5 {
				sizeErr = fmt.Sprintf("sequential write of %d bytes then delete reports size %d (%v), the model computes %d", l, size, err, l+5)
				return
			}
		}
	})
	return sizeErr
}

// run executes the program and returns class labels.
func run(t failer, p *program) (classes []string) {
	if e := sizeAssumption(); e != "" {
		t.Fatalf("INCONCLUSIVE harness assumption: %s", e)
	}
	if e := p.checkTwins(); e != "" {
		t.Fatalf("INCONCLUSIVE harness assumption (checksum twins): %s", e)
	}
	r := &runner{t: t, p: p, dir: vlib.TempDir()}
	defer os.RemoveAll(r.dir)
	r.store = newStore(r.dir, p.kind)
	r.store.SetStopping() // Store.WriteVolumeNeedle takes the batched fsync path only while stopping
	if err := r.store.AddVolume(vid, "", p.kind, "000", "", 0, 0, types.HardDriveType); err != nil {
		t.Fatalf("INCONCLUSIVE AddVolume: %v", err)
	}
	drain(r.store)
	closed := false
	defer func() {
		if !closed {
			r.store.Close()
		}
	}()

	var problems []string
	for i, o := range p.prelude {
		x, prob := r.exec(0, o, "prelude")
		_ = i
		r.record(x)
		if prob != "" {
			problems = append(problems, prob)
		}
	}

	start := make(chan struct{})
	var wg sync.WaitGroup
	var pmu sync.Mutex
	for g, th := range p.threads {
		wg.Add(1)
		go func(g int, th []op) {
			defer wg.Done()
			<-start
			for _, o := range th {
				x, prob := r.exec(g, o, fmt.Sprintf("g%d", g))
				r.record(x)
				if prob != "" {
					pmu.Lock()
					problems = append(problems, prob)
					pmu.Unlock()
				}
			}
		}(g, th)
	}
	compactErrs := 0
	if p.compacts > 0 {
		wg.Add(1)
		go func() {
			defer wg.Done()
			<-start
			for i := 0; i < p.compacts; i++ {
				runtime.Gosched()
				c0 := r.tick()
				if err := r.store.CompactVolume(vid, 0, 0); err != nil {
					r.note(fmt.Sprintf("[%d] CompactVolume failed: %v", c0, err))
					compactErrs++
					if err := r.store.CommitCleanupVolume(vid); err != nil {
						r.note(fmt.Sprintf("CommitCleanupVolume failed: %v", err))
					}
					continue
				}
				c1 := r.tick()
				_, err := r.store.CommitCompactVolume(vid)
				c2 := r.tick()
				if err != nil {
					r.note(fmt.Sprintf("[%d,%d] CommitCompactVolume failed: %v", c1, c2, err))
					compactErrs++
				} else {
					r.note(fmt.Sprintf("compaction: compact [%d,%d] commit [%d,%d]", c0, c1, c1, c2))
				}
			}
		}()
	}
	close(start)
	wg.Wait()

	// ---- final sequential read-backs
	final := len(p.threads)
	live := map[int]kvOut{}
	for k := 0; k < nKeys; k++ {
		x, prob := r.exec(final, op{kind: opRead, key: k}, "final")
		r.record(x)
		live[k] = x.out
		if prob != "" {
			problems = append(problems, "final read-back: "+prob)
		}
	}
	if len(problems) > 0 {
		r.fail("%s", strings.Join(problems, "; "))
	}
	if compactErrs > 0 {
		r.fail("compaction failed while operations were running (see notes)")
	}
	r.store.Close()
	closed = true

	// the .dat file as a scan sees it (what an index rebuild would produce)
	sc := &datScanner{last: map[uint64]*needle.Needle{}}
	if err := storage.ScanVolumeFile(r.dir, "", vid, storage.NeedleMapInMemory, sc); err != nil {
		r.fail("scan of the .dat file after the run failed: %v", err)
	}
	for k := 0; k < nKeys; k++ {
		x := rec{client: final, in: kvIn{kind: opRead, key: k}, src: "dat-scan", call: r.tick()}
		if n := sc.last[keyIds[k]]; n != nil && len(n.Data) > 0 {
			v := r.valOf(n.Data)
			x.out = kvOut{found: true, val: v, cookie: uint32(n.Cookie), text: fmt.Sprintf("%s,c=%08x", readName(v), uint32(n.Cookie))}
			if v < 0 {
				x.out.text = fmt.Sprintf("%d bytes that are none of the payloads", len(n.Data))
			}
		} else if n != nil {
			x.out = kvOut{text: "tombstone"}
		} else {
			x.out = kvOut{text: "no record"}
		}
		x.ret = r.tick()
		r.record(x)
		if x.out.found != live[k].found || x.out.val != live[k].val || x.out.cookie != live[k].cookie {
			r.fail("k%d: the last record of the key in the .dat file is %s, but the store answered %s", k, x.out.text, live[k].text)
		}
	}

	// the store reopened from disk
	s2 := newStore(r.dir, p.kind)
	drain(s2)
	r.store = s2
	for k := 0; k < nKeys; k++ {
		x, prob := r.exec(final, op{kind: opRead, key: k}, "reopened")
		r.record(x)
		if prob != "" {
			s2.Close()
			r.fail("read-back after reopening the store: %s", prob)
		}
		if x.out.found != live[k].found || x.out.val != live[k].val || x.out.cookie != live[k].cookie {
			s2.Close()
			r.fail("k%d: the reopened store answers %s, before the restart it answered %s", k, x.out.text, live[k].text)
		}
	}
	s2.Close()

	// ---- linearizability per key
	m := model(p.sizes)
	overlaps := 0
	for k := 0; k < nKeys; k++ {
		var ops []porcupine.Operation
		var rs []rec
		for _, x := range r.hist {
			if x.in.key == k {
				ops = append(ops, porcupine.Operation{ClientId: x.client, Input: x.in, Call: x.call, Output: x.out, Return: x.ret})
				rs = append(rs, x)
			}
		}
		for i := range rs {
			for j := i + 1; j < len(rs); j++ {
				if rs[i].client != rs[j].client && rs[i].call < rs[j].ret && rs[j].call < rs[i].ret {
					overlaps++
				}
			}
		}
		if res := porcupine.CheckOperations(m, ops); !res {
			r.fail("k%d: the history is not linearizable: no sequential order of these operations that respects their real-time order explains the results", k)
		}
	}

	// ---- classes
	classes = append(classes, "program")
	if overlaps > 0 {
		classes = append(classes, "overlapping-ops-on-a-key-observed")
	} else {
		classes = append(classes, "no-overlap-observed")
	}
	if p.compacts > 0 {
		classes = append(classes, "with-compaction")
	}
	if p.kind != storage.NeedleMapInMemory {
		classes = append(classes, "leveldb")
	}
	if twinOverwriteObserved(r.hist) {
		classes = append(classes, "overwrite-with-checksum-twin")
	}
	seen := map[string]bool{}
	for _, x := range r.hist {
		var c string
		switch {
		case x.in.kind == opWrite && x.out.err:
			c = "write-cookie-rejected"
		case x.in.kind == opWrite && x.out.unchanged:
			c = "write-unchanged"
		case x.in.kind == opDelete && x.out.size > 0:
			c = "delete-live"
		case x.in.kind == opRead && x.out.found && x.src != "final" && x.src != "reopened" && x.src != "dat-scan":
			c = "read-found"
		}
		if c != "" && !seen[c] {
			seen[c] = true
			classes = append(classes, c)
		}
	}
	return classes
}

// twinOverwriteObserved: some completed right-cookie twin upload W2 answered
// "stored" began after another completed right-cookie twin upload W1 of the same
// key had returned, and no delete and no other kind of upload of that key
// overlaps [W1.call, W2.return]: W2 replaced a live blob that differs from it in
// content only (same length, cookie, checksum and metadata).
func twinOverwriteObserved(hist []rec) bool {
	twinW := func(x rec) bool {
		return x.in.kind == opWrite && isTwin(x.in.val) && x.in.cookie == rightCookie && !x.out.err
	}
	for _, w2 := range hist {
		if !twinW(w2) || w2.out.unchanged {
			continue
		}
		for _, w1 := range hist {
			if !twinW(w1) || w1.in.key != w2.in.key || w1.ret >= w2.call {
				continue
			}
			clean := true
			for _, x := range hist {
				if x.in.key != w2.in.key || x.in.kind == opRead || twinW(x) {
					continue
				}
				if x.call < w2.ret && w1.call < x.ret {
					clean = false
					break
				}
			}
			if clean {
				return true
			}
		}
	}
	return false
}

func linearizableCase(t *rapid.T) {
	p := genProgram(t)
	classes := run(t, p)
	vlib.Case(p.String(), p.nontrivial(), classes...)
}

func TestPropLinearizable(t *testing.T) {
	vlib.Check(t, 600, 8000, linearizableCase)
}

// TestPropChecksumTwinSequentialExhaustive: the sequential corner of the
// property with the same runner and oracle. For every ordered pair (A,B) of the
// 3 twins of a key, both needle map kinds and the 4 combinations of immediate /
// batched path: upload A, upload B (must be stored), read (must return B's
// bytes), upload B again (must be "unchanged"), read; the three keys take the
// pairs in rotation. The final read-backs, the .dat scan and the reopened store
// must show B as well.
func TestPropChecksumTwinSequentialExhaustive(t *testing.T) {
	type pair struct{ a, b int }
	var pairs []pair
	for a := 0; a < twinsPerKey; a++ {
		for b := 0; b < twinsPerKey; b++ {
			if a != b {
				pairs = append(pairs, pair{a, b})
			}
		}
	}
	pads := []int{0, 1, 29, 288, 4096 - twinLen, 65536 - twinLen}
	idx, all := 0, true
	for _, kind := range []storage.NeedleMapKind{storage.NeedleMapInMemory, storage.NeedleMapLevelDb} {
		for combo := 0; combo < 4; combo++ {
			for pi := range pairs {
				idx++
				if !vlib.ShardOwns(idx) {
					continue
				}
				p := &program{kind: kind}
				for v := 0; v < twinBase; v++ {
					p.sizes = append(p.sizes, 100000+v) // ordinary payloads are not used here
				}
				for k := 0; k < nKeys; k++ {
					for j := 0; j < twinsPerKey; j++ {
						p.sizes = append(p.sizes, twinLen+pads[(idx+2*k)%len(pads)])
					}
				}
				for k := 0; k < nKeys; k++ {
					pr := pairs[(pi+k)%len(pairs)]
					c := (combo + k) % 4
					va, vb := twinBase+k*twinsPerKey+pr.a, twinBase+k*twinsPerKey+pr.b
					p.prelude = append(p.prelude,
						op{kind: opWrite, key: k, val: va, cookie: rightCookie, fsync: c&1 != 0},
						op{kind: opWrite, key: k, val: vb, cookie: rightCookie, fsync: c&2 != 0},
						op{kind: opRead, key: k},
						op{kind: opWrite, key: k, val: vb, cookie: rightCookie, fsync: c&1 != 0},
						op{kind: opRead, key: k})
				}
				classes := run(t, p)
				observed := false
				for i, c := range classes {
					if c == "program" {
						classes[i] = "sequential-twin-program"
					}
					observed = observed || c == "overwrite-with-checksum-twin"
				}
				all = all && observed
				vlib.Case("sequential "+p.String(), observed, classes...)
			}
		}
	}
	vlib.Exhaustive("checksum-twin-overwrite-sequential(pairs x needle map kinds x write paths)", all)
}
