package c38

// Race-detector run. Go's testing package fails a test as soon as the race
// detector has reported anything, and the detector knows no suppressions. To
// keep searching behind a listed data race, the -race binary runs the property
// in a child process of itself (GORACE log_path=...), and the parent decides:
// linearizability failures of the child and every race report that does not
// belong to a listed finding fail the test.

import (
	"bytes"
	"fmt"
	"os"
	"os/exec"
	"path/filepath"
	"regexp"
	"strings"
	"testing"

	"github.com/chrislusf/seaweedfs/weed/storage/needle"
	"github.com/chrislusf/seaweedfs/weed/storage/types"

	"verifharness/vlib"
)

const findVersionRace = "C38-superblock-access-data-race"

var accessRE = regexp.MustCompile(`(?m)^(Read|Write|Previous read|Previous write) at 0x[0-9a-f]+ by [^\n]*\n\s+(\S+)`)

// raceReports reads the race detector's log files and returns the reports that
// involve the listed racy getter and all others.
func raceReports(logPrefix string) (known, other []string) {
	files, _ := filepath.Glob(logPrefix + ".*")
	for _, f := range files {
		b, err := os.ReadFile(f)
		if err != nil {
			continue
		}
		for _, blk := range strings.Split(string(b), "==================") {
			if !strings.Contains(blk, "WARNING: DATA RACE") {
				continue
			}
			isKnown := false
			var tops []string
			for _, m := range accessRE.FindAllStringSubmatch(blk, -1) {
				tops = append(tops, m[2][strings.LastIndex(m[2], "/")+1:])
			}
			has := func(fn string) bool {
				for _, x := range tops {
					if x == fn {
						return true
					}
				}
				return false
			}
			// the listed finding: the volume's super block / volume info is accessed outside dataFileAccessLock:
			// (1) Volume.Version() assigns v.SuperBlock.Version on every call; its callers hold no lock or a read lock
			// (2) writeNeedle2 reads v.Ttl before taking the lock while CommitCompact's reload replaces v.SuperBlock
			if has("storage.(*Volume).Version()") {
				isKnown = true
			}
			if has("storage.(*Volume).writeNeedle2()") && (has("storage.(*Volume).readSuperBlock()") || has("storage.(*Volume).maybeLoadVolumeInfo()")) {
				isKnown = true
			}
			if isKnown {
				known = append(known, blk)
			} else {
				other = append(other, blk)
			}
		}
	}
	return
}

func TestRaceLinearizable(t *testing.T) {
	if !raceEnabled || os.Getenv("C38_RACE_CHILD") != "" {
		// rapid ends the test with FailNow once the race detector has marked it as failed: defer
		defer func() {
			if pfx := os.Getenv("C38_RACE_LOG"); pfx != "" {
				known, other := raceReports(pfx)
				for range known {
					vlib.Excluded(findVersionRace)
				}
				vlib.Note(fmt.Sprintf("race detector (shard %d): %d reports of the listed super block access race, %d other reports", vlib.Shard(), len(known), len(other)))
			}
		}()
		vlib.Check(t, 300, 1600, linearizableCase)
		return
	}
	dir := vlib.TempDir()
	defer os.RemoveAll(dir)
	logPrefix := filepath.Join(dir, "race")
	cmd := exec.Command(os.Args[0], os.Args[1:]...)
	cmd.Env = append(os.Environ(), "C38_RACE_CHILD=1", "C38_RACE_LOG="+logPrefix, "GORACE=log_path="+logPrefix+" history_size=5 halt_on_error=0")
	var out bytes.Buffer
	cmd.Stdout, cmd.Stderr = &out, &out
	runErr := cmd.Run()
	os.Unsetenv("VERIF_STATS_OUT") // the child has written the statistics of this shard
	known, other := raceReports(logPrefix)
	text := out.String()
	if len(text) > 60000 {
		text = text[:30000] + "\n…\n" + text[len(text)-30000:]
	}
	// any failure of the child other than "race detected" is a failure of the property itself
	failedOtherwise := false
	for _, l := range strings.Split(out.String(), "\n") {
		if strings.Contains(l, "[rapid] failed") || strings.Contains(l, "panic:") || strings.Contains(l, "fatal error:") || strings.Contains(l, "INCONCLUSIVE") {
			failedOtherwise = true
		}
	}
	if runErr != nil && (failedOtherwise || len(known)+len(other) == 0) {
		t.Fatalf("the property failed in the -race child process (%v):\n%s", runErr, text)
	}
	if len(other) > 0 {
		t.Fatalf("the race detector reported %d data race(s) during the generated programs (first one below; %d more reports belong to the listed super block access race)\n%s", len(other), len(known), other[0])
	}
	if len(known) > 0 && !vlib.Known(findVersionRace) {
		t.Fatalf("[%s] the race detector reported %d data race(s) on the volume's super block / volume info during the generated programs (first one below)\n%s", findVersionRace, len(known), known[0])
	}
	if runErr != nil && len(known) == 0 {
		t.Fatalf("the -race child process failed (%v):\n%s", runErr, text)
	}
}

// TestFindingVersionGetterRace is the probe of the listed data race for the
// ordinary (non -race) binary, which cannot observe a data race directly: it
// shows the write that races. Volume.Version() is called by every upload,
// delete and read; uploads and deletes call it before taking the volume lock,
// reads under the shared read lock. The probe changes SuperBlock.Version by hand
// and reports whether a mere call of the getter stores into that field again.
func TestFindingVersionGetterRace(t *testing.T) {
	dir := vlib.TempDir()
	defer os.RemoveAll(dir)
	s := newStore(dir, 0)
	defer s.Close()
	if err := s.AddVolume(vid, "", 0, "000", "", 0, 0, types.HardDriveType); err != nil {
		vlib.Finding(t, findVersionRace, false, "probe could not run: "+err.Error())
		return
	}
	drain(s)
	v := s.GetVolume(vid)
	orig := v.SuperBlock.Version
	v.SuperBlock.Version = needle.Version1
	got := v.Version()
	stored := v.SuperBlock.Version
	v.SuperBlock.Version = orig
	vlib.Finding(t, findVersionRace, stored != needle.Version1,
		fmt.Sprintf("Volume.Version() is a getter that assigns v.SuperBlock.Version (field set to %d by hand, after one Version() call it holds %d, call returned %d); Store.WriteVolumeNeedle/DeleteVolumeNeedle call it before taking dataFileAccessLock and ReadVolumeNeedle under the shared RLock, so any two concurrent operations race on the field (go test -race: 'DATA RACE ... (*Volume).Version() volume.go:99'; same family: writeNeedle2 reads v.Ttl unlocked while CommitCompact's reload assigns v.SuperBlock)", needle.Version1, stored, got))
}
