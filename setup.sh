#!/bin/sh
# Offline setup: warm the Go build cache for the harness packages (and the weed
# binary used by the mini-cluster checks). Everything is rebuilt from /repo's
# working tree again by each check; this only makes the first check fast.
export GOFLAGS=-mod=mod GOPROXY=off GOSUMDB=off GOTOOLCHAIN=local
cd "$(dirname "$0")/harness" || exit 1
go build ./vlib/... || exit 1
go vet -tags verif ./... >/dev/null 2>&1
go test -tags verif -vet=off -count=1 -run '^$' ./... >/dev/null 2>&1 || true
exit 0
